#!/bin/bash
# Build the harness offline from files on disk and validate the reference model.
set -e
export CARGO_NET_OFFLINE=true
ROOT=$(cd "$(dirname "$0")" && pwd)
export CARGO_TARGET_DIR="$ROOT/build/target"
export VERIF_REPO="${VERIF_REPO:-/repo}"
mkdir -p "$ROOT/build" "$ROOT/evidence" "$ROOT/replays"
cd "$ROOT/harness"
cargo build --release --offline -p tvc
cargo build --release --offline -p tvc-sched
"$ROOT/build/target/release/tvc" selftest
echo "setup ok"
