#!/bin/bash
# Build the harness offline from files on disk and validate the reference model.
set -e
export CARGO_NET_OFFLINE=true
mkdir -p /verif/build /verif/evidence /verif/replays
cd /verif/harness
cargo build --release --offline -p tvc
cargo build --release --offline -p tvc-sched
/verif/build/target/release/tvc selftest
echo "setup ok"
