#!/usr/bin/env python3
"""Regenerates /verif/MANIFEST.json from the table below (run after changing what is claimed)."""
import json, subprocess

TRUST = "refchess (independent ~700-line mailbox model of the FIDE rules, validated against published perft numbers at every start); the harness includes /repo's sources by #[path], so the code explored is the working tree; bounded families only (listed in the evidence)"

CHECKS = {
 "C01": dict(
   technique="explicit-state exploration: BFS over the engine's own make_move from 45 seeds + complete enumeration of bounded-material families (kings+1, en-passant, castling, promotion), each state compared with a reference model",
   text="Exhaustive bounded model checking: every position of F-REACH (BFS depth 3/2 quick, 4/3 thorough), all legal kings+1 positions, all en-passant constellations with one extra man, castling constellations with 1 (2) enemy men, promotion family (thorough: all kings+2 positions); in each the engine's move list with capture/en-passant/castling/promotion flags is compared as a multiset with the reference legal moves and the in-check verdict with the reference. Right level because the rule interactions named in the property need at most kings + 3-4 men, all of which are enumerated, not sampled.",
   design="5/C01"),
}

NOT_YET = "check under construction in this round (see DESIGN.md section 5 for the planned exhaustive exploration); not claimed until its command exists"
ALL = ["C%02d" % i for i in range(1, 21)]

m = {
 "version": 1,
 "setup_cmd": "./setup.sh",
 "hooks": {
   "guard": "--cfg jgilchrist_tcheran_verif",
   "enable": "never via RUSTFLAGS: the harness crates under /verif/harness include /repo/src/{chess,engine} by #[path]; their build.rs emits cargo:rustc-cfg=jgilchrist_tcheran_verif for the harness crate only, and the harness crate root supplies crate::verif_hooks / crate::verif_shim that the hook lines call",
   "baseline_off_cmd": "cd /repo && cargo test --workspace --no-fail-fast --offline",
   "source_commits": subprocess.run("git -C /repo log --format=%h --grep='^verif hook' ", shell=True, capture_output=True, text=True).stdout.split(),
   "add_only": True,
 },
 "engines": [
   {"name": "tvc", "path": "/verif/harness/tvc", "serves_properties": sorted(CHECKS), "kind_free_text": "checked build (overflow checks + debug assertions) of the engine sources plus explorers: position BFS, family enumerators, operation-sequence DFS, search-session and environment-deviation enumeration"},
 ],
 "checks": [],
 "not_applicable": [],
 "notes": "All checks: ./check <ID> <quick|thorough>; exit 2 = machinery failure. Known findings: /verif/known_findings.jsonl. Design: /verif/DESIGN.md.",
}
for pid in ALL:
    if pid in CHECKS:
        c = CHECKS[pid]
        m["checks"].append({
          "property_id": pid,
          "quick_cmd": f"./check {pid} quick",
          "thorough_cmd": f"./check {pid} thorough",
          "evidence_file": f"/verif/evidence/{pid}.json",
          "replay_cmd_template": "./check replay {path}",
          "engine": c.get("engine", "tvc"),
          "level_claimed": {"category": "model_checking", "text": c["text"], "design_ref": c["design"]},
          "level_note": c.get("note", TRUST),
          "technique": c["technique"],
        })
    else:
        m["not_applicable"].append({"property_id": pid, "reason": NOT_YET})
json.dump(m, open("/verif/MANIFEST.json", "w"), indent=1)
print("claimed:", sorted(CHECKS))
