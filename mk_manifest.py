#!/usr/bin/env python3
"""Regenerates /verif/MANIFEST.json from the table below (run after changing what is claimed)."""
import json, subprocess

TRUST = "refchess (independent ~700-line mailbox model of the FIDE rules, validated against published perft numbers at every start); the harness includes /repo's sources by #[path], so the code explored is the working tree; bounded families only (listed in the evidence)"

CHECKS = {
 "C01": dict(
   technique="explicit-state exploration: BFS over the engine's own make_move from 45 seeds + complete enumeration of bounded-material families (kings+1, en-passant, castling, promotion), each state compared with a reference model; six seeds with 133-218 legal moves",
   text="Exhaustive bounded model checking: every position of F-REACH (BFS depth 3/2 quick, 4/3 thorough), all legal kings+1 positions, all en-passant constellations with one extra man, castling constellations with 1 (2) enemy men, promotion family (thorough: all kings+2 positions); in each the engine's move list with capture/en-passant/castling/promotion flags is compared as a multiset with the reference legal moves and the in-check verdict with the reference. Right level because the rule interactions named in the property need at most kings + 3-4 men, all of which are enumerated, not sampled.",
   design="5/C01"),
 "C02": dict(
   technique="explicit-state exploration (position BFS + family enumeration, one make/take-back per transition) and exhaustive operation-sequence DFS (make / null move / take-back, nesting depth 4-5, and single lines nested 560-20000 deep) against a reference stack",
   text="Every transition of the position sweep and every nested make / null-move / take-back sequence up to the stated depth on one Game object: the result of make_move is compared field by field with the reference rules (en-passant target by the tolerant rule), every take-back with a full snapshot (placement, side, rights, ep, clocks, key, accumulators, bitboards, history length), and the three board views on all 64 squares after every operation; the null move is tried before and after the real moves of a node; one scripted reversible game of 300 (700) plies with every legal move made and taken back at every ply (clock and history length past 256); one line nested 2600 (20000) operations deep with null moves in between, checked after every operation and taken back level by level (E2-DEEP-NEST); a panic of the game object on an operation the script is entitled to is a violation; F-CORNER and F-ABSURD families.",
   design="5/C02"),
 "C03": dict(
   technique="exhaustive operation-sequence DFS + position BFS with key recomputation after every operation, a key->identity collision map over all states met, in both directions (one key per identity, one identity per key), and all 838^2 pairs of key components",
   text="The carried key equals the from-scratch key after every make, null move and take-back of every explored sequence (null moves with an en-passant target included, vacuity-guarded); two identities under one key anywhere in the exploration is a violation; all 838 components recovered through the public API are pairwise distinct and non-zero (exhaustive). Null move before and after the real moves of every node (hidden state across take-backs), full operation trace as replay case; E2-DEEP-NEST: one line nested 2600 (20000) operations deep, key recomputed at every level down and up.",
   design="5/C03"),
 "C04": dict(
   technique="exhaustive enumeration of search sessions (complete 3-man endgame families, tactical roots x depth x hash size x prior searches x start generation) and of environment deviations (every clock-read index as expiry point) on the real search in a checked build; en-passant twin positions searched on one table",
   text="Every search of every enumerated session runs in a build with overflow checks and debug assertions inside catch_unwind with a deterministic node budget: it must terminate, not panic and return a move that is legal by the reference rules. Sessions chain searches on one persistent state (non-initial states, generation counter wrap, hash sizes from the advertised minimum); for time-limited searches every clock-read index at which the limit expires is executed. The tactical roots include forced replies without any quiet move (the only legal move a losing or a winning capture, colour-mirrored twins).",
   design="5/C04"),
 "C05": dict(
   engine="tvc-sched",
   technique="stateless model checking of the real code: exhaustive preemption-bounded DFS over thread interleavings (shuttle runtime, own yield-aware scheduler) for every well-formed command script up to length 5-6 (and, in a second dialect with forced-move roots and clocks on the go line, up to length 3-4), plus an abstract-state fixpoint; the scripts are also run on the optimised binary in five modes and, where they contain no stop / quit / unbounded search, as one command-list argument of the binary",
   text="The real Uci command loop (GUI task) and the real search closure spawned by go run under a controlled scheduler; for every well-formed script over a 10-letter alphabet up to the stated length, every schedule within the stated preemption bound is executed; deadlock (no runnable task), livelock (step bound), missing readyok, a go without exactly one bestmove, quit not ending the loop are violations. Failing schedules are replayed twice before being reported. The set of abstract protocol states closes (reported), which extends the verdict to longer histories under a stated assumption.",
   note="shuttle 0.9.3 (sequentially consistent interleavings); std::sync / std::thread of uci/mod.rs, util/sync.rs, time_control.rs re-pointed by the cfg-guarded shim lines; go infinite modelled as a blocking wait at the poll (hook H1); preemption-bounded, not unbounded",
   design="5/C05"),
 "C06": dict(
   technique="explicit-state exploration for the round trip (every state of the position sweep) and exhaustive enumeration of malformed inputs (all rank-width vectors with <=2-3 deviations, all single edits, all short strings, all material extremes) under catch_unwind",
   text="(a) For every position of the sweep families from_fen(to_fen(g)) equals g including key and accumulators, and the reference writer's canonical text survives read-then-write; (b) enumerated malformed strings: the reader returns Ok or Err and never unwinds, and a board field with a rank that is not eight squares wide (judged by an independent width computation) is never accepted; FEN-MATERIAL: every man letter on the first n squares for n = 0..64 (with and without kings) and all two-letter boards split at each rank.",
   design="5/C06"),
 "C07": dict(
   technique="complete enumeration: all 107,648 (square, relevant-blocker subset) cases with irrelevant-bit variants, all leaper/pawn/between arguments, against coordinate-loop geometry",
   text="Complete, not bounded: every subset of every square's relevant blocker mask (mask recomputed from geometry) plus occupancies differing only in irrelevant bits, every table index checked against the table length through a read-only hook; knight, king, pawn tables and all 64x64 between entries against their geometric definitions.",
   design="5/C07"),
 "C08": dict(
   technique="exhaustive enumeration of search sessions (as C04, deeper) with a monitor on every info line of every iteration (also of searches that are then stopped or run out of time, at every stop instant), in process and on the text printed by the real command loop and by the optimised binary",
   text="Every info line of every search of the enumerated sessions (and every printed `info` line of 76 roots through the command loop under seven equivalent phrasings of the depth limit, and of the optimised binary): PV non-empty and legal move by move on the reference model, depths 1,2,3.. within the limit, every mate announcement (for or against) with exactly the matching number of plies and ending in checkmate of the announced side. Sessions include prior table contents (same and other positions, ucinewgame, generation wrap).",
   design="5/C08"),
 "C09": dict(
   technique="fault/deviation enumeration on the real search: for each (position, limit) every poll index k at which the stop flag first reads true, on tables whose generation counter reads 0 and 1 during the stopped search (fresh and pre-filled), followed by further searches",
   text="The stop flag is behind a seam; for every search of the set the number of polls P of the unstopped run is measured and all k in 1..P are executed (production polling frequency). After the first true observation: no further node visit, no further poll, a legal move, the given position untouched, and follow-up searches on the same tables return legal moves and legal lines.",
   design="5/C09"),
 "C10": dict(
   technique="explicit-state exploration (BFS positions with a previous move) x exhaustive enumeration of picker configurations with <=2 (thorough 3) simultaneous deviations, plus the position-shape families F-PROMO, F-EP and F-CORNER (both kings fixed, three further men on all squares) with <=1 deviation, stream compared as a multiset with the reference legal moves",
   text="For every position of the BFS families and every configuration of hash move (any legal move), killer slots (filled through try_push: legal quiets, captures, promotions and moves that are not legal here), counter move (keyed by the real previous move), history pattern and ply with at most D deviations from the default: the stream of MovePicker::next equals the legal moves each once; the captures-only stream is duplicate-free, legal and contains all captures and queen promotions.",
   design="5/C10"),
 "C11": dict(
   technique="exhaustive path enumeration (no state merging) from small seeds with start clocks {0,3,97..100} against a history oracle; complete material families for the material rule; a complete family of roots with a dead position just beyond the search horizon",
   text="Every node of every path up to length 5 (thorough 7) from 15 seeds (plus 42 scripted rook-cycle histories of up to 470 plies with recurrence distances 4..112, and the fifty-move verdict at clocks 0/99/100/101/150 on every state of the sweep; incl. rook-pawn double steps beside an enemy pawn on the opposite edge and all four rooks at home with all rights) x up to 6 start clocks: is_repeated_position() and the fifty-move verdict compared with the list of identities since the last capture/pawn move (both en-passant conventions; unasserted where they disagree). Material rule on all kings+0/1 positions, a complete kings+3-minors slice and every state of the sweep.",
   design="5/C11"),
 "C12": dict(
   technique="exhaustive enumeration of sessions (all sequences up to length 3 over searches / ucinewgame / set hash) on independently built states under four clock behaviours; differential oracle <H, ucinewgame, P> = <P on fresh> from table generations 0/253/254/255; the real command loop; separate optimised processes; and exhaustive preemption-bounded schedule enumeration (tvc-sched) of ucinewgame racing the finishing search thread and of consecutive searches (E6-DETERMINISM: the lines printed under every schedule equal those of the schedule without preemptions)",
   text="Traces (best move, every info field except time/nps, table statistics) of every session are identical across independently built states, a real, a frozen, a +1ms/read and a +1h/read clock, and concurrent execution; for every history H and probe P the searches after ucinewgame equal those of a freshly constructed state with the hash size then in force, and generation, occupancy and all history scores equal a fresh state; scripts through the real Uci loop compare the last go with a fresh engine.",
   design="5/C12"),
 "C13": dict(
   technique="exhaustive enumeration of option values parsed from the engine's own uci answer (Move Overhead, Threads: all values; Hash: boundaries, small values in all ordered pairs, before and between searches, with ucinewgame / stop in between; thorough: all 1025 sizes) through the real command loop with time-outs and on the optimised binary; exhaustive preemption-bounded schedule enumeration (tvc-sched) of setoption arriving right after bestmove",
   text="Each setoption is followed by isready -> readyok, a read-back of the option, and go depth 3 -> exactly one legal bestmove; a dead or hung search thread or a blocked command loop is a violation.",
   design="5/C13"),
 "C14": dict(
   technique="exhaustive enumeration of a dense clock grid (about 1 M tuples quick) through TimeStrategy::new, and of a coarser grid plus all 720 field orders of one go line through the real go command (limits read through hook H5); all 585 option histories of length <= 3 before a clock-limited go (OPTION-ORDER); virtual-clock search runs for the second clause, plus a labelled wall-clock MEASUREMENT on the optimised binary (best of up to eight, calibrated; not an enumeration)",
   text="Every (remaining, increment, movestogo, overhead, side, own-clock-only/both) tuple of the grid: hard <= (remaining-overhead)/2 with 1 ms tolerance, soft <= hard; movetime used as given for 5000+ values. The clause about returning before the clock runs out is explored under a virtual clock (time = nodes x 1 microsecond) on a coarser grid; real wall-clock time cannot be enumerated (stated): E7-WALL-CLOCK measures six scenarios (plain, first search after ucinewgame / after a resize on the largest table) with 200-250 ms on the clock and is skipped when the sandbox cannot time a 100 ms search.",
   design="5/C14"),
 "C15": dict(
   technique="explicit-state exploration + exhaustive operation-sequence DFS with recomputation of phase counter and packed accumulator after every operation",
   text="After every make, null move and take-back of every explored sequence, and in every state of the sweep (promotions, en passant, castling and F-HEAVY included), the carried phase counter and piece-square accumulator equal IncrementalEvalFields::init(&board) and separate 64-bit sums of the per-piece contributions (where they fit the packed halves); eval(game object) equals eval(position re-read from its FEN) at every node and after every take-back (path independence); F-ABSURD (20..56 queens or rooks of one colour), a 560-ply scripted game and one line nested 2600 (20000) operations deep that is taken back level by level (E2-DEEP-NEST).",
   design="5/C15"),
 "C16": dict(
   technique="explicit-state exploration over positions reached by moves (BFS) and enumerated families incl. material far outside normal play, each with its colour-mirrored twin; exhaustive lattice of (mg, eg, phase) triples; one list of 17 864 pawn constellations evaluated in two opposite orders on fresh threads (order independence)",
   text="Every state: eval equals eval of the mirrored twin built from scratch, no panic, outside the mate range, between the evaluations with phase forced to 24 and to 0; the blend function on a stride-257 lattice x phase 0..96 and the full square [-300,300]^2 x phase; pack/unpack round trip (thorough: all pairs in [-32767,32767]^2).",
   design="5/C16"),
 "C17": dict(
   technique="exhaustive path enumeration: every game up to length 2-4 from the start position and 12 FENs plus every prefix of 8 long deterministic games, each sent as one position command to the real command loop; all ordered pairs of ways of writing one root sent as two commands to one engine (POSITION-PAIRS); every promotion and en-passant constellation of the position families played through the text path (POSITION-FAMILIES)",
   text="After each command the engine's game equals the rules-level position (tolerant en-passant field), the FEN dump describes it, the history length equals the number of moves, the replies equal the legal moves in long algebraic form, bestmove text is well-formed and legal.",
   design="5/C17"),
 "C18": dict(
   technique="explicit-state exploration: every legal move of every state of the sweep, of the like-piece disambiguation families (2-3 knights/bishops/rooks/queens on all square sets) and of the promotion family against an independent SAN writer",
   text="For every move: text injective within the position, equal to the reference SAN (PGN standard disambiguation) modulo +/#, suffix present iff the move gives check (castling included), and parse_move(format_move(m)) == m inside catch_unwind.",
   design="5/C18"),
 "C19": dict(
   technique="explicit-state BFS over operation histories of the real table (insert / new-search / reset / resize with colliding keys), de-duplicated on the canonical observable state, against a reference replacement policy; every history also executed without intermediate probes (probing is itself an operation), and every sequence of 2-3 operations without any state merging; complete fill-indicator sweep, and the statistics of a 128 (512) MB table around 2^32/1000 occupied slots",
   text="After every operation of every explored history every probe of every alphabet key equals the reference policy's entry (the case the property leaves open is delegated to should_overwrite_with), occupied equals the number of occupied slots; sizes from the advertised minimum, start generations 0/254/255; fill indicator at every permille boundary up to a full table; 800 consecutive searches.",
   design="5/C19"),
 "C20": dict(
   technique="explicit-state exploration: every legal non-en-passant capture of every state of the sweep and of the complete F-SEE constellation family (victim + up to 2 (3) further men on seeing squares incl. x-rays, 5 king pairs) against a swap-list reference; all ordered pairs of captures of a position judged back to back (order independence)",
   text="At threshold 0: verdict equal for the colour-mirrored capture, true when the target is undefended, true when victim >= attacker, and equal to the swap-list minimax on constellations without a tie among least-valuable attackers, and independent of which capture of the same position was judged immediately before; piece values probed through the public verdicts.",
   design="5/C20"),
}

NOT_YET = "check under construction in this round (see DESIGN.md section 5 for the planned exhaustive exploration); not claimed until its command exists"
ALL = ["C%02d" % i for i in range(1, 21)]

m = {
 "version": 1,
 "setup_cmd": "./setup.sh",
 "hooks": {
   "guard": "--cfg jgilchrist_tcheran_verif",
   "enable": "never via RUSTFLAGS: the harness crates under /verif/harness include /repo/src/{chess,engine} by #[path]; their build.rs emits cargo:rustc-cfg=jgilchrist_tcheran_verif for the harness crate only, and the harness crate root supplies crate::verif_hooks / crate::verif_shim that the hook lines call",
   "baseline_off_cmd": "cd /repo && cargo test --workspace --no-fail-fast --offline",
   "source_commits": subprocess.run("git -C /repo log --format=%h --grep='^verif hook' ", shell=True, capture_output=True, text=True).stdout.split(),
   "add_only": True,
 },
 "engines": [
   {"name": "tvc-sched", "path": "/verif/harness/sched", "serves_properties": ["C05"], "kind_free_text": "the same engine sources with std::sync / std::thread of three files resolved to shuttle; exhaustive preemption-bounded schedule enumeration of the UCI command loop and the search thread"},
   {"name": "tvc", "path": "/verif/harness/tvc", "serves_properties": sorted(k for k in CHECKS if k != "C05"), "kind_free_text": "checked build (overflow checks + debug assertions) of the engine sources plus explorers: position BFS, family enumerators, operation-sequence DFS, search-session and environment-deviation enumeration"},
 ],
 "checks": [],
 "not_applicable": [],
 "notes": "All checks: ./check <ID> <quick|thorough>; exit 2 = machinery failure. Known findings: /verif/known_findings.jsonl. Design: /verif/DESIGN.md.",
}
ND = {"C01","C02","C03","C06","C07","C09","C10","C11","C14","C15","C16","C18","C19","C20"}
for pid in ALL:
    if pid in CHECKS:
        c = CHECKS[pid]
        m["checks"].append({
          "property_id": pid,
          "quick_cmd": f"./check {pid} quick",
          "thorough_cmd": f"./check {pid} thorough",
          "evidence_file": f"/verif/evidence/{pid}.json",
          "replay_cmd_template": "./check replay {path}",
          "engine": c.get("engine", "tvc"),
          "level_claimed": {"category": "model_checking", "text": c["text"], "design_ref": c["design"]},
          "level_note": c.get("note", TRUST),
          "technique": c["technique"] + ("; the quick tier is executed a second time by a build of the harness without debug assertions and overflow checks (family PROFILE-NDEBUG) and merged" if pid in ND else ""),
        })
    else:
        m["not_applicable"].append({"property_id": pid, "reason": NOT_YET})
json.dump(m, open("/verif/MANIFEST.json", "w"), indent=1)
print("claimed:", sorted(CHECKS))
