// Included (include!) at the crate root of both harness binaries. Replicates the ~20 lines of glue of
// /repo/src/main.rs (module list, ENGINE_NAME, engine_version, init) and pulls the engine's real
// sources in by path, so every build of the harness compiles /repo's current working tree.
#[path = "/repo/src/chess/mod.rs"]
#[allow(warnings, clippy::all)]
pub mod chess;
#[path = "/repo/src/engine/mod.rs"]
#[allow(warnings, clippy::all)]
pub mod engine;

#[allow(unused_imports)]
use engine::uci;

pub const ENGINE_NAME: &str = "Tcheran";

pub fn engine_version() -> String {
    "v5.1-verif".to_string()
}

pub fn init() {
    chess::init();
    engine::init();
}
