// Builds the fathom tablebase prober that the engine's bindings link against, switches the verification hooks of
// the engine's sources on for this crate only, and writes the glue that pulls the engine's sources in by path.
// The repository is /repo unless VERIF_REPO names another checkout (used by background runs on a snapshot).
use std::io::Write;

fn main() {
    let repo = std::env::var("VERIF_REPO").ok().filter(|s| !s.is_empty()).unwrap_or_else(|| "/repo".to_string());
    println!("cargo:rerun-if-env-changed=VERIF_REPO");
    println!("cargo:rerun-if-changed={repo}/src/engine/tablebases/fathom/src");
    println!("cargo:rerun-if-changed=build.rs");
    println!("cargo:rerun-if-changed=../common/glue.rs.in");
    println!("cargo::rustc-check-cfg=cfg(jgilchrist_tcheran_verif)");
    println!("cargo:rustc-cfg=jgilchrist_tcheran_verif");
    // the table's slot counter is a public field today; if a change removes it the harness falls back to the fill
    // indicator instead of failing to compile
    println!("cargo:rerun-if-changed={repo}/src/engine/transposition_table.rs");
    println!("cargo::rustc-check-cfg=cfg(verif_tt_occupied)");
    if std::fs::read_to_string(format!("{repo}/src/engine/transposition_table.rs")).map(|t| t.contains("pub occupied")).unwrap_or(false) {
        println!("cargo:rustc-cfg=verif_tt_occupied");
    }
    cc::Build::new()
        .include(format!("{repo}/src/engine/tablebases/fathom/src"))
        .file(format!("{repo}/src/engine/tablebases/fathom/src/tbprobe.c"))
        .warnings(false)
        .compile("fathom");
    let template = std::fs::read_to_string("../common/glue.rs.in").expect("glue.rs.in");
    let out = std::path::Path::new(&std::env::var("OUT_DIR").unwrap()).join("glue.rs");
    std::fs::File::create(out).unwrap().write_all(template.replace("@REPO@", &repo).as_bytes()).unwrap();
}
