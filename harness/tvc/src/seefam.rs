//! F-SEE: exchange constellations around one target square. A black victim on the target, up to `n`
//! further men of either colour on squares that "see" the target geometrically (rays of their kind,
//! possibly through one another — x-rays —, knight jumps, pawn attack squares), kings on a few fixed
//! pairs including ones adjacent to the target. White to move; the colour-swapped twin is evaluated
//! by monitor (a). Complete enumeration for the given n.

use crate::monitors::{Counts, Ctx};
use crate::refchess::{self as rc, sq, Color, Kind, Pos};
use crate::sweep::visit_built;
use crate::util::par_for;
use std::sync::Mutex;

fn options_for(target: u8) -> Vec<(u8, Color, Kind)> {
    let (tf, tr) = (rc::file_of(target), rc::rank_of(target));
    let mut out = vec![];
    for s in 0..64u8 {
        if s == target {
            continue;
        }
        let (df, dr) = (rc::file_of(s) - tf, rc::rank_of(s) - tr);
        let orth = df == 0 || dr == 0;
        let diag = df.abs() == dr.abs();
        let knight = (df.abs() == 1 && dr.abs() == 2) || (df.abs() == 2 && dr.abs() == 1);
        for c in [Color::W, Color::B] {
            if orth {
                out.push((s, c, Kind::R));
                out.push((s, c, Kind::Q));
            }
            if diag {
                out.push((s, c, Kind::B));
                out.push((s, c, Kind::Q));
            }
            if knight {
                out.push((s, c, Kind::N));
            }
        }
        // pawns that attack the target: white from one rank below, black from one rank above
        if df.abs() == 1 && dr == -1 && rc::rank_of(s) != 0 {
            out.push((s, Color::W, Kind::P));
        }
        if df.abs() == 1 && dr == 1 && rc::rank_of(s) != 7 {
            out.push((s, Color::B, Kind::P));
        }
    }
    out
}

fn king_pairs_for(target: u8) -> Vec<(u8, u8)> {
    let (tf, tr) = (rc::file_of(target), rc::rank_of(target));
    let mut v: Vec<(u8, u8)> = vec![(sq(0, 0), sq(7, 7)), (sq(7, 0), sq(0, 7))];
    // a king next to the target (defender / attacker of last resort)
    let adj = |df: i32, dr: i32| if rc::on_board(tf + df, tr + dr) { Some(sq(tf + df, tr + dr)) } else { None };
    if let Some(a) = adj(0, 1) {
        v.push((sq(0, 0), a));
    }
    if let Some(a) = adj(0, -1) {
        v.push((a, sq(7, 7)));
    }
    if let (Some(a), Some(b)) = (adj(-1, -1), adj(1, 1)) {
        v.push((a, b));
    }
    v
}

fn rec(base: &mut Pos, opts: &[(u8, Color, Kind)], start: usize, left: usize, kings: &[(u8, u8)], cb: &mut dyn FnMut(&Pos)) {
    // emit the current placement with every king pair
    for &(wk, bk) in kings {
        if base.board[wk as usize].is_some() || base.board[bk as usize].is_some() || wk == bk {
            continue;
        }
        if (rc::file_of(bk) - rc::file_of(wk)).abs() <= 1 && (rc::rank_of(bk) - rc::rank_of(wk)).abs() <= 1 {
            continue;
        }
        base.board[wk as usize] = Some((Color::W, Kind::K));
        base.board[bk as usize] = Some((Color::B, Kind::K));
        base.side = Color::W;
        if base.is_legal_position() {
            cb(base);
        }
        base.board[wk as usize] = None;
        base.board[bk as usize] = None;
    }
    if left == 0 {
        return;
    }
    for i in start..opts.len() {
        let (s, c, k) = opts[i];
        if base.board[s as usize].is_some() {
            continue;
        }
        base.board[s as usize] = Some((c, k));
        rec(base, opts, i + 1, left - 1, kings, cb);
        base.board[s as usize] = None;
    }
}

pub fn run(ctx: &Ctx, n: usize, total: &Mutex<Counts>) -> (u64, u64) {
    let targets: Vec<u8> = if n >= 3 { vec![sq(3, 4)] } else { vec![sq(3, 4), sq(7, 0), sq(4, 7)] };
    let a = run_ext(ctx, n, &targets, &[Kind::P, Kind::N, Kind::B, Kind::R, Kind::Q], &[Kind::P, Kind::N, Kind::B, Kind::R, Kind::Q], 5, "F-SEE", total);
    // ties among equally valued attackers with different pieces behind them need four further men: heavy pieces only
    let b = run_ext(ctx, 4, &[sq(3, 4)], &[Kind::P, Kind::R], &[Kind::R, Kind::Q], 1, "F-SEE-HEAVY", total);
    (a.0 + b.0, a.1 + b.1)
}

#[allow(clippy::too_many_arguments)]
pub fn run_ext(ctx: &Ctx, n: usize, targets: &[u8], victims: &[Kind], men: &[Kind], king_pairs: usize, name: &str, total: &Mutex<Counts>) -> (u64, u64) {
    // (target, victims)
    let mut items: Vec<(u8, Kind)> = vec![];
    for t in targets {
        for v in victims.iter().copied() {
            if v == Kind::P && (rc::rank_of(*t) == 0 || rc::rank_of(*t) == 7) {
                continue;
            }
            items.push((*t, v));
        }
    }
    // shard by (item, first option index)
    let mut shards: Vec<(u8, Kind, usize)> = vec![];
    for (t, v) in &items {
        for i in 0..options_for(*t).iter().filter(|o| men.contains(&o.2)).count() {
            shards.push((*t, *v, i));
        }
    }
    let stats = Mutex::new((0u64, 0u64));
    par_for(shards.len(), |si| {
        let (t, v, first) = shards[si];
        let opts: Vec<(u8, Color, Kind)> = options_for(t).into_iter().filter(|o| men.contains(&o.2)).collect();
        let kings: Vec<(u8, u8)> = king_pairs_for(t).into_iter().take(king_pairs).collect();
        let mut c = Counts::new();
        let (mut st, mut tr) = (0u64, 0u64);
        let mut base = Pos::empty();
        base.board[t as usize] = Some((Color::B, v));
        let (s, col, k) = opts[first];
        base.board[s as usize] = Some((col, k));
        rec(&mut base, &opts, first + 1, n - 1, &kings, &mut |p: &Pos| {
            let (a, b) = visit_built(ctx, p, &mut c);
            st += a;
            tr += b;
        });
        let mut tt = total.lock().unwrap();
        for (k, v) in c {
            *tt.entry(k).or_insert(0) += v;
        }
        drop(tt);
        let mut s = stats.lock().unwrap();
        s.0 += st;
        s.1 += tr;
    });
    let s = *stats.lock().unwrap();
    ctx.run.family(name, &format!("targets {:?}, victims {:?}, 1..={} further men of kinds {:?} on seeing squares, {} king pair(s), white to move (+ mirrored twin per capture)", targets.iter().map(|t| rc::sq_name(*t)).collect::<Vec<_>>(), victims, n, men, king_pairs), s.0, s.1, true, "");
    s
}
