//! In-process driver for the engine's real UCI command loop (`Uci::verif_run_line`, hook H2), with real
//! threads. Responses are captured through the response-log seam; search threads are tracked through
//! the shim's spawn wrapper so that a finished / died search can be awaited without polling.

#![allow(dead_code)]

use crate::engine::uci::Uci;
use crate::util::catch;
use crate::verif_hooks::{self as vh, Log, Sink};
use std::sync::{Arc, Mutex};
use std::time::Duration;

pub struct Drv {
    pub uci: Uci,
    pub log: Log,
    pub sink: Sink,
    cursor: usize,
    pub sent: Vec<String>,
}

#[derive(Debug, PartialEq, Eq)]
pub enum Wait {
    Finished,
    /// the search thread ended without reaching its end (panic)
    Died,
    /// no end within the timeout
    Hung,
    NoSearch,
}

impl Drv {
    pub fn new(hash_mb: usize) -> Result<Drv, String> {
        let log: Log = Arc::new(Mutex::new(vec![]));
        let sink: Sink = Arc::new(Mutex::new(vec![]));
        vh::set_log(Some(log.clone()));
        vh::set_sink(Some(sink.clone()));
        let uci = catch(|| Uci::verif_new(hash_mb))?;
        Ok(Drv { uci, log, sink, cursor: 0, sent: vec![] })
    }

    /// Send one command line. Ok(true) = keep going, Ok(false) = quit requested, Err = panic or error text.
    pub fn send(&mut self, line: &str) -> Result<bool, String> {
        self.sent.push(line.to_string());
        match catch(|| self.uci.verif_run_line(line)) {
            Ok(Ok(b)) => Ok(b),
            Ok(Err(e)) => Err(format!("error: {e}")),
            Err(p) => Err(format!("panic: {p}")),
        }
    }

    /// Wait for every search thread started so far.
    pub fn wait_search(&mut self, timeout: Duration) -> Wait {
        let rxs: Vec<_> = std::mem::take(&mut *self.sink.lock().unwrap());
        if rxs.is_empty() {
            return Wait::NoSearch;
        }
        let mut res = Wait::Finished;
        for rx in rxs {
            match rx.recv_timeout(timeout) {
                Ok(()) => {}
                Err(std::sync::mpsc::RecvTimeoutError::Disconnected) => res = Wait::Died,
                Err(std::sync::mpsc::RecvTimeoutError::Timeout) => return Wait::Hung,
            }
        }
        res
    }

    /// Response lines since the last call.
    pub fn take(&mut self) -> Vec<String> {
        let l = self.log.lock().unwrap();
        let v = l[self.cursor..].to_vec();
        self.cursor = l.len();
        v
    }
}

impl Drop for Drv {
    fn drop(&mut self) {
        vh::set_log(None);
        vh::set_sink(None);
    }
}

/// `info` line with the time-dependent fields removed.
pub fn strip_info(line: &str) -> String {
    let w: Vec<&str> = line.split_whitespace().collect();
    let mut out = vec![];
    let mut i = 0;
    while i < w.len() {
        if w[i] == "time" || w[i] == "nps" {
            i += 2;
            continue;
        }
        out.push(w[i]);
        i += 1;
    }
    out.join(" ")
}
