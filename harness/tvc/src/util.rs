//! Small utilities: JSON values, parallel for, panic capture.

#![allow(dead_code)]

use std::collections::BTreeMap;
use std::sync::atomic::{AtomicUsize, Ordering};

#[derive(Clone, Debug)]
pub enum J {
    Null,
    Bool(bool),
    Int(i64),
    Num(f64),
    Str(String),
    Arr(Vec<J>),
    Obj(Vec<(String, J)>),
}

impl J {
    pub fn s(x: impl Into<String>) -> J {
        J::Str(x.into())
    }
    pub fn i(x: impl TryInto<i64>) -> J {
        J::Int(x.try_into().ok().unwrap_or(i64::MAX))
    }
    pub fn obj(kv: Vec<(&str, J)>) -> J {
        J::Obj(kv.into_iter().map(|(k, v)| (k.to_string(), v)).collect())
    }
    pub fn from_map(m: &BTreeMap<String, u64>) -> J {
        J::Obj(m.iter().map(|(k, v)| (k.clone(), J::i(*v))).collect())
    }
    pub fn get(&self, k: &str) -> Option<&J> {
        match self {
            J::Obj(v) => v.iter().find(|(a, _)| a == k).map(|(_, b)| b),
            _ => None,
        }
    }
    pub fn as_str(&self) -> Option<&str> {
        match self {
            J::Str(s) => Some(s),
            _ => None,
        }
    }
    pub fn as_i64(&self) -> Option<i64> {
        match self {
            J::Int(i) => Some(*i),
            J::Num(f) => Some(*f as i64),
            _ => None,
        }
    }
    pub fn as_arr(&self) -> Option<&Vec<J>> {
        match self {
            J::Arr(a) => Some(a),
            _ => None,
        }
    }
    pub fn dump(&self) -> String {
        let mut s = String::new();
        self.write(&mut s, 0);
        s
    }
    fn write(&self, out: &mut String, ind: usize) {
        match self {
            J::Null => out.push_str("null"),
            J::Bool(b) => out.push_str(if *b { "true" } else { "false" }),
            J::Int(i) => out.push_str(&i.to_string()),
            J::Num(f) => {
                if f.is_finite() {
                    out.push_str(&format!("{:.3}", f))
                } else {
                    out.push_str("null")
                }
            }
            J::Str(s) => {
                out.push('"');
                for c in s.chars() {
                    match c {
                        '"' => out.push_str("\\\""),
                        '\\' => out.push_str("\\\\"),
                        '\n' => out.push_str("\\n"),
                        '\r' => out.push_str("\\r"),
                        '\t' => out.push_str("\\t"),
                        c if (c as u32) < 0x20 => out.push_str(&format!("\\u{:04x}", c as u32)),
                        c => out.push(c),
                    }
                }
                out.push('"');
            }
            J::Arr(a) => {
                if a.is_empty() {
                    out.push_str("[]");
                    return;
                }
                out.push_str("[\n");
                for (i, x) in a.iter().enumerate() {
                    out.push_str(&" ".repeat(ind + 1));
                    x.write(out, ind + 1);
                    if i + 1 < a.len() {
                        out.push(',');
                    }
                    out.push('\n');
                }
                out.push_str(&" ".repeat(ind));
                out.push(']');
            }
            J::Obj(o) => {
                if o.is_empty() {
                    out.push_str("{}");
                    return;
                }
                out.push_str("{\n");
                for (i, (k, v)) in o.iter().enumerate() {
                    out.push_str(&" ".repeat(ind + 1));
                    J::Str(k.clone()).write(out, 0);
                    out.push_str(": ");
                    v.write(out, ind + 1);
                    if i + 1 < o.len() {
                        out.push(',');
                    }
                    out.push('\n');
                }
                out.push_str(&" ".repeat(ind));
                out.push('}');
            }
        }
    }

    /// Minimal JSON parser (for replay files and the known-findings list).
    pub fn parse(s: &str) -> Result<J, String> {
        let b: Vec<char> = s.chars().collect();
        let mut i = 0;
        let v = parse_value(&b, &mut i)?;
        skip_ws(&b, &mut i);
        if i != b.len() {
            return Err("trailing characters".into());
        }
        Ok(v)
    }
}

fn skip_ws(b: &[char], i: &mut usize) {
    while *i < b.len() && b[*i].is_whitespace() {
        *i += 1;
    }
}

fn parse_value(b: &[char], i: &mut usize) -> Result<J, String> {
    skip_ws(b, i);
    if *i >= b.len() {
        return Err("eof".into());
    }
    match b[*i] {
        '{' => {
            *i += 1;
            let mut o = vec![];
            loop {
                skip_ws(b, i);
                if *i < b.len() && b[*i] == '}' {
                    *i += 1;
                    break;
                }
                let k = match parse_value(b, i)? {
                    J::Str(s) => s,
                    _ => return Err("key".into()),
                };
                skip_ws(b, i);
                if *i >= b.len() || b[*i] != ':' {
                    return Err("colon".into());
                }
                *i += 1;
                let v = parse_value(b, i)?;
                o.push((k, v));
                skip_ws(b, i);
                if *i < b.len() && b[*i] == ',' {
                    *i += 1;
                }
            }
            Ok(J::Obj(o))
        }
        '[' => {
            *i += 1;
            let mut a = vec![];
            loop {
                skip_ws(b, i);
                if *i < b.len() && b[*i] == ']' {
                    *i += 1;
                    break;
                }
                a.push(parse_value(b, i)?);
                skip_ws(b, i);
                if *i < b.len() && b[*i] == ',' {
                    *i += 1;
                }
            }
            Ok(J::Arr(a))
        }
        '"' => {
            *i += 1;
            let mut s = String::new();
            while *i < b.len() && b[*i] != '"' {
                if b[*i] == '\\' {
                    *i += 1;
                    match b.get(*i) {
                        Some('n') => s.push('\n'),
                        Some('t') => s.push('\t'),
                        Some('r') => s.push('\r'),
                        Some('u') => {
                            let h: String = b[*i + 1..*i + 5].iter().collect();
                            s.push(char::from_u32(u32::from_str_radix(&h, 16).map_err(|e| e.to_string())?).unwrap_or('?'));
                            *i += 4;
                        }
                        Some(c) => s.push(*c),
                        None => return Err("escape".into()),
                    }
                } else {
                    s.push(b[*i]);
                }
                *i += 1;
            }
            *i += 1;
            Ok(J::Str(s))
        }
        't' => {
            *i += 4;
            Ok(J::Bool(true))
        }
        'f' => {
            *i += 5;
            Ok(J::Bool(false))
        }
        'n' => {
            *i += 4;
            Ok(J::Null)
        }
        _ => {
            let st = *i;
            while *i < b.len() && (b[*i].is_ascii_digit() || "+-.eE".contains(b[*i])) {
                *i += 1;
            }
            let t: String = b[st..*i].iter().collect();
            if let Ok(v) = t.parse::<i64>() {
                Ok(J::Int(v))
            } else {
                t.parse::<f64>().map(J::Num).map_err(|e| format!("number {t}: {e}"))
            }
        }
    }
}

pub fn threads() -> usize {
    std::env::var("VERIF_THREADS").ok().and_then(|s| s.parse().ok()).unwrap_or_else(|| std::thread::available_parallelism().map(|n| n.get()).unwrap_or(8))
}

/// Run `f(i)` for every i in 0..n on all cores (dynamic work stealing by atomic counter). Worker
/// threads get a 256 MB stack: the search keeps large arrays on the stack.
pub fn par_for<F: Fn(usize) + Sync>(n: usize, f: F) {
    let next = AtomicUsize::new(0);
    let nt = threads().min(n.max(1));
    std::thread::scope(|s| {
        for _ in 0..nt {
            std::thread::Builder::new()
                .stack_size(256 * 1024 * 1024)
                .spawn_scoped(s, || loop {
                    let i = next.fetch_add(1, Ordering::Relaxed);
                    if i >= n {
                        break;
                    }
                    if let Err(e) = catch(|| f(i)) {
                        ESCAPED.lock().unwrap().push(format!("work item {i}: {e}"));
                    }
                })
                .unwrap();
        }
    });
}

/// Panics that escaped a worker body (harness bugs or engine panics outside a guarded call): reported
/// as machinery errors by `report::finish`, never as verdicts.
pub static ESCAPED: std::sync::Mutex<Vec<String>> = std::sync::Mutex::new(Vec::new());

thread_local! {
    static LAST_PANIC: std::cell::RefCell<Option<String>> = const { std::cell::RefCell::new(None) };
    /// >0 while this thread is inside `catch` (i.e. running the subject under test)
    static IN_SUBJECT: std::cell::Cell<u32> = const { std::cell::Cell::new(0) };
    /// what this thread is currently exploring (JSON case, human-readable key), for aborts that cannot be caught
    static CURRENT_CASE: std::cell::RefCell<Option<(String, String)>> = const { std::cell::RefCell::new(None) };
}

/// Property and tier of this process (set once by the entry point) for the emergency report.
pub static PROCESS_INFO: std::sync::Mutex<(String, String)> = std::sync::Mutex::new((String::new(), String::new()));

/// Tell the emergency reporter what this thread is about to run.
pub fn set_current_case(case_json: String, key: String) {
    CURRENT_CASE.with(|c| *c.borrow_mut() = Some((case_json, key)));
}

/// Install a panic hook that records message and location per thread instead of printing.
pub fn install_quiet_panic_hook() {
    std::panic::set_hook(Box::new(|info| {
        let msg = if let Some(s) = info.payload().downcast_ref::<&str>() {
            (*s).to_string()
        } else if let Some(s) = info.payload().downcast_ref::<String>() {
            s.clone()
        } else {
            "<non-string panic>".to_string()
        };
        let loc = info.location().map(|l| format!("{}:{}", l.file(), l.line())).unwrap_or_default();
        LAST_PANIC.with(|p| *p.borrow_mut() = Some(format!("{msg} @ {loc}")));
        // A panic that cannot unwind (an unsafe precondition check, a panic in a destructor or across an FFI
        // boundary) aborts the process and cannot be caught. If it happens while the subject under test is
        // running it is the subject's crash: report it as a violation with what was being explored, and exit 1.
        // (PanicHookInfo::can_unwind is unstable: recognised by the messages the runtime uses)
        if msg.starts_with("unsafe precondition(s) violated") || msg.contains("cannot unwind") {
            let in_subject = IN_SUBJECT.with(|c| c.get()) > 0;
            let (prop, tier) = PROCESS_INFO.lock().map(|g| g.clone()).unwrap_or_default();
            let case = CURRENT_CASE.with(|c| c.borrow().clone());
            if in_subject && !prop.is_empty() {
                // several workers may get here at once: only the first one reports (the others wait for its exit)
                static REPORTING: std::sync::atomic::AtomicBool = std::sync::atomic::AtomicBool::new(false);
                if REPORTING.swap(true, std::sync::atomic::Ordering::SeqCst) {
                    loop {
                        std::thread::sleep(std::time::Duration::from_secs(3600));
                    }
                }
                let dir = std::env::var("VERIF_DIR").unwrap_or_else(|_| "/verif".to_string());
                if let Ok(summary) = std::env::var("TVC_ND_CHILD") {
                    // second-profile run: report through the summary file the parent run is waiting for
                    if !summary.is_empty() && tier != "replay" {
                        let (cj, key) = case.clone().unwrap_or(("{\"kind\": \"abort\"}".to_string(), "(no case recorded)".to_string()));
                        let esc = |s: &str| s.replace('\\', "\\\\").replace('"', "\\\"").replace('\n', " ");
                        let _ = std::fs::write(&summary, format!("{{\"property\": \"{prop}\", \"states\": 1, \"transitions\": 1, \"families\": 0, \"completed\": false, \"distinct\": 0, \"wall_s\": 0.0, \"violation_kinds\": {{\"process-abort\": 1}}, \"machinery_errors\": [], \"violations\": [{{\"kind\": \"process-abort\", \"key\": \"{}\", \"case\": {cj}, \"detail\": \"{}\"}}]}}", esc(&key), esc(&format!("{msg} @ {loc}"))));
                        std::process::exit(1);
                    }
                }
                let _ = std::fs::create_dir_all(format!("{dir}/replays/{prop}"));
                let path = format!("{dir}/replays/{prop}/abort.json");
                let (cj, key) = case.unwrap_or(("{\"kind\": \"abort\"}".to_string(), "(no case recorded)".to_string()));
                let esc = |s: &str| s.replace('\\', "\\\\").replace('"', "\\\"").replace('\n', " ");
                if tier != "replay" {
                    let _ = std::fs::write(&path, format!("{{\"property\": \"{prop}\", \"kind\": \"process-abort\", \"key\": \"{}\", \"case\": {cj}, \"detail\": \"{}\"}}", esc(&key), esc(&format!("{msg} @ {loc}"))));
                }
                let ev = format!("{{\"property_id\": \"{prop}\", \"tier\": \"{tier}\", \"seed\": 0, \"level\": \"model_checking\", \"coverage\": {{\"states\": 1, \"transitions\": 1, \"traces_validated_against_impl\": 0, \"samples\": [\"{}\"], \"explanation\": \"the run ended early: the code under test aborted the process (non-unwinding panic) while exploring the sample above\"}}, \"wall_s\": 0.0, \"violations\": 1}}", esc(&key));
                if tier == "replay" {
                    println!("replay: VIOLATION [process-abort] {msg} @ {loc}");
                    std::process::exit(1);
                }
                let _ = std::fs::write(format!("{dir}/evidence/{prop}.json"), ev);
                println!("VIOLATION property={prop} replay={path}");
                eprintln!("  violation [process-abort] {key} :: {msg} @ {loc}");
                std::process::exit(1);
            }
        }
    }));
}

/// Run `f`, turning a panic into Err(message @ file:line).
pub fn catch<R>(f: impl FnOnce() -> R) -> Result<R, String> {
    LAST_PANIC.with(|p| *p.borrow_mut() = None);
    IN_SUBJECT.with(|c| c.set(c.get() + 1));
    let r = std::panic::catch_unwind(std::panic::AssertUnwindSafe(f));
    IN_SUBJECT.with(|c| c.set(c.get().saturating_sub(1)));
    match r {
        Ok(r) => Ok(r),
        Err(_) => Err(LAST_PANIC.with(|p| p.borrow_mut().take()).unwrap_or_else(|| "panic".to_string())),
    }
}

/// Deterministic 64-bit mixer (splitmix64) for seed-selected slices; never used for sampling verdicts.
pub fn mix(mut x: u64) -> u64 {
    x = x.wrapping_add(0x9e3779b97f4a7c15);
    x = (x ^ (x >> 30)).wrapping_mul(0xbf58476d1ce4e5b9);
    x = (x ^ (x >> 27)).wrapping_mul(0x94d049bb133111eb);
    x ^ (x >> 31)
}

/// Run `f` on a helper thread; None if it does not return within `secs` (the thread is left behind —
/// used to turn a blocked command loop into a verdict instead of a hung harness).
pub fn with_timeout<T: Send + 'static>(secs: u64, f: impl FnOnce() -> T + Send + 'static) -> Option<T> {
    let (tx, rx) = std::sync::mpsc::channel();
    std::thread::Builder::new()
        .stack_size(256 * 1024 * 1024)
        .spawn(move || {
            let r = catch(f);
            let _ = tx.send(r);
        })
        .ok()?;
    match rx.recv_timeout(std::time::Duration::from_secs(secs)) {
        Ok(Ok(v)) => Some(v),
        Ok(Err(e)) => {
            ESCAPED.lock().unwrap().push(format!("helper thread: {e}"));
            None
        }
        Err(_) => None,
    }
}
