//! E7 families for C04, C12, C13, C17 on the optimised binary (see blackbox.rs).

#![allow(dead_code)]

use crate::blackbox::{binary, Engine};
use crate::refchess::Pos;
use crate::report::Run;
use crate::session::GameSpec;
use crate::ucidrv::strip_info;
use crate::util::{par_for, J};
use std::sync::atomic::{AtomicU64, Ordering};
use std::time::Duration;

const T: Duration = Duration::from_secs(60);

fn case(lines: &[String]) -> J {
    J::obj(vec![("kind", J::s("blackbox")), ("lines", J::Arr(lines.iter().map(|l| J::s(l.clone())).collect()))])
}

fn position_line(g: &GameSpec) -> String {
    let mut s = format!("position fen {}", g.fen);
    if !g.moves.is_empty() {
        s.push_str(" moves ");
        s.push_str(&g.moves.join(" "));
    }
    s
}

/// Run a script; after every `go` wait for bestmove; returns per go (info lines stripped, bestmove token).
/// Err((kind, detail)) on a hang / death / bad exit.
pub fn run_script(bin: &str, lines: &[String], expect_quit_ok: bool) -> Result<Vec<(Vec<String>, String)>, (String, String)> {
    let mut e = Engine::start(bin).map_err(|m| ("blackbox-start".to_string(), m))?;
    let mut out = vec![];
    for l in lines {
        e.send(l).map_err(|m| ("blackbox-engine-died".to_string(), format!("{m}; transcript tail {:?}", e.transcript.iter().rev().take(6).collect::<Vec<_>>())))?;
        if l.starts_with("go") {
            let got = e.wait_for("bestmove", T).map_err(|m| ("blackbox-no-bestmove".to_string(), format!("after `{l}`: {m}; transcript tail {:?}", e.transcript.iter().rev().take(6).collect::<Vec<_>>())))?;
            let infos: Vec<String> = got.iter().filter(|x| x.starts_with("info")).map(|x| strip_info(x)).collect();
            let bm = got.last().and_then(|x| x.split_whitespace().nth(1)).unwrap_or("").to_string();
            out.push((infos, bm));
        }
        if l == "isready" {
            let n = e.transcript.iter().filter(|x| *x == "> isready").count();
            e.wait_for_count("readyok", n, T).map_err(|m| ("blackbox-no-readyok".to_string(), m))?;
        }
    }
    if expect_quit_ok {
        e.quit(Duration::from_secs(10)).map_err(|m| ("blackbox-exit-status".to_string(), m))?;
    }
    Ok(out)
}

fn need_bin(run: &Run) -> Option<String> {
    match binary() {
        Some(b) => Some(b),
        None => {
            run.machinery_error("E7: VERIF_ENGINE_BIN is not set or the optimised engine binary is missing (./check builds it)".to_string());
            None
        }
    }
}

/// C04 on the optimised build: every tactical root x depth 1..=D, plus 300 searches in one process.
pub fn c04(run: &Run) -> (u64, u64) {
    let Some(bin) = need_bin(run) else { return (0, 0) };
    let roots = crate::searchchk::tactical_roots();
    let maxd = if run.quick() { 6 } else { 9 };
    let hash_min = crate::checks::advertised_hash_min();
    let n = AtomicU64::new(0);
    par_for(roots.len(), |i| {
        let g = &roots[i];
        let (_, root) = g.build().unwrap();
        let legal: Vec<String> = root.legal_moves().iter().map(|m| m.uci()).collect();
        for hash in [hash_min, 1, 16] {
            let mut lines = vec![format!("setoption name Hash value {hash}"), "isready".to_string(), position_line(g)];
            for d in 1..=maxd {
                lines.push(format!("go depth {d}"));
            }
            lines.push("isready".into());
            match run_script(&bin, &lines, true) {
                Err((k, d)) => run.violation(&k, format!("{k}|{}", lines.join(" ; ")), case(&lines), format!("optimised build, [{}]: {d}", lines.join(" ; "))),
                Ok(res) => {
                    for (gi, (_, bm)) in res.iter().enumerate() {
                        n.fetch_add(1, Ordering::Relaxed);
                        if !legal.contains(bm) {
                            run.violation("blackbox-illegal-bestmove", format!("blackbox-illegal-bestmove|{}|{gi}", lines.join(" ; ")), case(&lines), format!("optimised build: `go depth {}` in {} answers bestmove {bm}, not a legal move", gi + 1, g.key()));
                        }
                    }
                }
            }
        }
    });
    // many searches in one process
    let mut lines = vec!["setoption name Hash value 1".to_string(), "position fen 8/8/8/4k3/8/8/4P3/4K3 w - - 0 1".to_string()];
    for i in 0..300 {
        lines.push(format!("go depth {}", 1 + i % 3));
    }
    lines.push("isready".into());
    match run_script(&bin, &lines, true) {
        Err((k, d)) => run.violation(&k, format!("{k}|300 searches"), case(&lines), format!("optimised build, 300 consecutive searches: {d}")),
        Ok(r) => {
            n.fetch_add(r.len() as u64, Ordering::Relaxed);
        }
    }
    let a = n.load(Ordering::Relaxed);
    run.family("E7-OPTIMISED-BUILD", &format!("{} roots x Hash {{{hash_min},1,16}} x go depth 1..={maxd} in one process each, and 300 consecutive searches in one process, on the optimised binary (panic=abort): every bestmove legal, isready answered, exit status 0", roots.len()), a, a, true, "one schedule per script (real threads)");
    *run.traces_validated.lock().unwrap() += a;
    (a, a)
}

/// C08 on the optimised build: every printed info line of every root, replayed on the reference model.
pub fn c08(run: &Run) -> (u64, u64) {
    let Some(bin) = need_bin(run) else { return (0, 0) };
    let maxd0 = if run.quick() { 7 } else { 10 };
    let mut roots: Vec<(GameSpec, u32)> = crate::searchchk::tactical_roots().into_iter().map(|g| (g, maxd0)).collect();
    // tiny trees searched to the largest depth limit the protocol can express here (every iteration completes)
    for f in ["4k3/8/8/p1p1p1p1/P1P1P1P1/8/8/4K3 w - - 0 1", "8/8/8/3k4/8/3K4/8/8 w - - 0 1"] {
        for d in [254u32, 255] {
            roots.push((GameSpec::fen(f), d));
        }
    }
    let n = AtomicU64::new(0);
    par_for(roots.len(), |i| {
        let (g, maxd) = &roots[i];
        let maxd = *maxd;
        let (_, root) = g.build().unwrap();
        let lines = vec!["setoption name Hash value 1".to_string(), position_line(g), format!("go depth {maxd}")];
        let Ok(mut e) = Engine::start(&bin) else { return };
        for l in &lines {
            let _ = e.send(l);
        }
        let got = match e.wait_for("bestmove", Duration::from_secs(120)) {
            Ok(v) => v,
            Err(m) => {
                run.violation("blackbox-no-bestmove", format!("blackbox-no-bestmove|{}", lines.join(" ; ")), case(&lines), m);
                return;
            }
        };
        let mut expect = 1u32;
        for l in got.iter().filter(|l| l.starts_with("info ")) {
            n.fetch_add(1, Ordering::Relaxed);
            let w: Vec<&str> = l.split_whitespace().collect();
            let field = |k: &str| w.iter().position(|x| *x == k).and_then(|i| w.get(i + 1)).copied();
            let depth: u32 = field("depth").and_then(|x| x.parse().ok()).unwrap_or(0);
            let vio = |kind: &str, detail: String| run.violation(kind, format!("{kind}|blackbox|{}|depth {depth}", lines.join(" ; ")), case(&lines), format!("optimised build, {}: {detail} (line: {l})", g.key()));
            if depth != expect || depth > maxd {
                vio("info-depth-sequence", format!("depth {depth} printed where {expect} was expected"));
            }
            expect = depth + 1;
            let pv: Vec<&str> = match w.iter().position(|x| *x == "pv") {
                Some(i) => w[i + 1..].to_vec(),
                None => vec![],
            };
            if pv.is_empty() {
                vio("pv-empty", "no principal variation".into());
                continue;
            }
            let mut p = root.clone();
            let mut ok = true;
            for (j, m) in pv.iter().enumerate() {
                match p.legal_moves().into_iter().find(|x| x.uci() == *m) {
                    Some(rm) => p = p.apply(&rm),
                    None => {
                        vio("pv-illegal-move", format!("move {} ({m}) is not legal in {}", j + 1, p.to_fen()));
                        ok = false;
                        break;
                    }
                }
            }
            if !ok {
                continue;
            }
            if let Some(i) = w.iter().position(|x| *x == "mate") {
                let nm: i64 = w.get(i + 1).and_then(|x| x.parse().ok()).unwrap_or(0);
                let want = if nm > 0 { 2 * nm - 1 } else { -2 * nm } as usize;
                let side_ok = if nm > 0 { p.side != root.side } else { p.side == root.side };
                if nm == 0 || pv.len() != want || !p.is_checkmate() || !side_ok {
                    vio("mate-announcement", format!("mate {nm} printed with {} plies (expected {want}), ends in {}", pv.len(), p.to_fen()));
                }
            }
        }
    });
    let a = n.load(Ordering::Relaxed);
    run.family("E7-PRINTED-LINES", &format!("{} roots x go depth {maxd0} (two tiny-tree roots: depth 254 and 255) on the optimised binary: every printed info line replayed on the reference model", roots.len()), roots.len() as u64, a, true, "");
    *run.traces_validated.lock().unwrap() += a;
    (roots.len() as u64, a)
}

/// C13 on the optimised build.
pub fn c13(run: &Run) -> (u64, u64) {
    let Some(bin) = need_bin(run) else { return (0, 0) };
    let opts = crate::ucichk::spin_options();
    let pos = "position fen r3k2r/p1ppqpb1/bn2pnp1/3PN3/1p2P3/2N2Q1p/PPPBBPPP/R3K2R w KQkq - 0 1";
    let root = Pos::from_fen("r3k2r/p1ppqpb1/bn2pnp1/3PN3/1p2P3/2N2Q1p/PPPBBPPP/R3K2R w KQkq - 0 1").unwrap();
    let legal: Vec<String> = root.legal_moves().iter().map(|m| m.uci()).collect();
    let mut scripts: Vec<Vec<String>> = vec![];
    for o in &opts {
        let vals: Vec<usize> = if o.name == "Hash" {
            let mut v = vec![o.min, o.min + 1, 1, 2, 3, 7, 8, 16, 255, 256, 257, o.max - 1, o.max];
            v.retain(|x| *x >= o.min && *x <= o.max);
            v.sort();
            v.dedup();
            v
        } else if run.quick() {
            vec![o.min, (o.min + o.max) / 2, o.max]
        } else {
            (o.min..=o.max).collect()
        };
        for v in &vals {
            // fresh process: before the first search, and between two searches
            scripts.push(vec![format!("setoption name {} value {v}", o.name), "isready".into(), pos.into(), "go depth 3".into(), "isready".into()]);
            scripts.push(vec![pos.into(), "go depth 3".into(), format!("setoption name {} value {v}", o.name), "isready".into(), "go depth 3".into(), "ucinewgame".into(), format!("setoption name {} value {v}", o.name), "isready".into(), pos.into(), "go depth 3".into()]);
        }
    }
    let n = AtomicU64::new(0);
    // large tables one at a time
    let (big, small): (Vec<_>, Vec<_>) = scripts.iter().cloned().partition(|s| s.iter().any(|l| l.contains("Hash value") && l.rsplit(' ').next().and_then(|v| v.parse::<usize>().ok()).unwrap_or(0) > 64));
    let runone = |lines: &Vec<String>| {
        n.fetch_add(1, Ordering::Relaxed);
        match run_script(&bin, lines, true) {
            Err((k, d)) => run.violation(&k, format!("{k}|{}", lines.join(" ; ")), case(lines), format!("optimised build, [{}]: {d}", lines.join(" ; "))),
            Ok(res) => {
                for (_, bm) in &res {
                    if !legal.contains(bm) {
                        run.violation("blackbox-illegal-bestmove", format!("blackbox-illegal-bestmove|{}", lines.join(" ; ")), case(lines), format!("optimised build, [{}]: bestmove {bm} is not legal", lines.join(" ; ")));
                    }
                }
            }
        }
    };
    par_for(small.len(), |i| runone(&small[i]));
    for s in &big {
        runone(s);
    }
    let a = n.load(Ordering::Relaxed);
    run.family("E7-OPTIONS", "every advertised spin option x boundary / interior values (Hash: 13 values incl. min and max) in a fresh optimised process: before the first search; between two searches and again after ucinewgame", a, a * 6, true, "real abort semantics");
    *run.traces_validated.lock().unwrap() += a;
    (a, a * 6)
}

/// C17 on the optimised build: `position ...` then `d fen` and `d perftdiv 1`.
pub fn c17(run: &Run) -> (u64, u64) {
    let Some(bin) = need_bin(run) else { return (0, 0) };
    let bases: Vec<(&str, usize)> = vec![
        ("startpos", 2),
        ("fen r3k2r/8/8/8/8/8/8/R3K2R w KQkq - 0 1", 2),
        ("fen 4k3/3p1p2/8/4P3/4p3/8/3P1P2/4K3 w - - 0 1", 3),
        ("fen r3k2r/1P4P1/8/8/8/8/1p4p1/R3K2R w KQkq - 0 1", 2),
        ("fen 1n1rk3/2P5/8/8/8/8/5p2/3RK1N1 w - - 0 1", 2),
        ("fen rnbqkbnr/ppp1p1pp/8/3pPp2/8/8/PPPP1PPP/RNBQKBNR w KQkq f6 0 3", 2),
        ("fen 8/P6k/8/8/8/8/7K/8 w - - 7 50", 3),
    ];
    let n = AtomicU64::new(0);
    par_for(bases.len(), |i| {
        let (base, depth) = bases[i];
        let base_pos = if base == "startpos" { Pos::startpos() } else { Pos::from_fen(base.trim_start_matches("fen ")).unwrap() };
        if !base_pos.is_legal_position() {
            run.machinery_error(format!("E7 base {base} is not a legal position"));
            return;
        }
        let mut e = match Engine::start(&bin) {
            Ok(e) => e,
            Err(m) => {
                run.violation("blackbox-start", "blackbox-start".into(), J::Null, m);
                return;
            }
        };
        let _ = e.send("setoption name Hash value 1");
        // all paths
        let mut stack: Vec<(Pos, Vec<String>)> = vec![(base_pos.clone(), vec![])];
        let mut spelling = 0usize;
        while let Some((p, moves)) = stack.pop() {
            let mut line = format!("position {base}");
            if !moves.is_empty() {
                line.push_str(" moves ");
                line.push_str(&moves.join(" "));
            }
            // the same command in the ways a GUI may legitimately write it: single blanks, tabs, runs of blanks with
            // leading and trailing ones, a carriage return before the line feed
            n.fetch_add(1, Ordering::Relaxed);
            spelling += 1;
            let line = match spelling % 4 {
                // (tabs only for startpos games: the unmodified engine reads `position<TAB>fen<TAB>..` as an invalid FEN
                // and exits; the property's input format is written with blanks, so that spelling is not demanded)
                1 if base == "startpos" => line.replace(' ', "\t"),
                2 => format!("  {}  ", line.replace(' ', "   ")),
                3 => format!("{line}\r"),
                _ => line,
            };
            let c = || J::obj(vec![("kind", J::s("blackbox")), ("lines", J::Arr(vec![J::s(line.clone()), J::s("d fen"), J::s("d perftdiv 1")]))]);
            let r = e.send(&line).and_then(|_| e.send("d fen")).and_then(|_| e.wait_for("FEN:", T));
            let fen_line = match r {
                Ok(v) => v.last().cloned().unwrap_or_default(),
                Err(m) => {
                    run.violation("blackbox-position", format!("blackbox-position|{line}"), c(), format!("optimised build, `{line}` + d fen: {m}"));
                    return;
                }
            };
            let fen = fen_line.trim_start_matches("FEN:").trim().to_string();
            let ok = match Pos::from_fen(&fen) {
                Ok(rp) => rp.board == p.board && rp.side == p.side && rp.castle == p.castle && rp.halfmove == p.halfmove && rp.fullmove == p.fullmove && (rp.ep.is_none() || rp.ep == p.ep) && (!p.ep_capturable() || rp.ep == p.ep),
                Err(_) => false,
            };
            if !ok {
                run.violation("blackbox-fen-dump", format!("blackbox-fen-dump|{line}"), c(), format!("optimised build: after `{line}` the FEN dump is {fen}, the rules give {}", p.to_fen()));
            }
            let r = e.send("d perftdiv 1").and_then(|_| e.wait_for("total:", T));
            match r {
                Err(m) => {
                    run.violation("blackbox-position", format!("blackbox-perftdiv|{line}"), c(), format!("optimised build, `{line}` + d perftdiv 1: {m}"));
                    return;
                }
                Ok(v) => {
                    let mut got: Vec<String> = v.iter().filter(|l| l.contains(": ") && !l.starts_with("total")).map(|l| l.split(':').next().unwrap_or("").to_string()).collect();
                    got.sort();
                    let mut exp: Vec<String> = p.legal_moves().iter().map(|m| m.uci()).collect();
                    exp.sort();
                    if got != exp {
                        run.violation("blackbox-replies", format!("blackbox-replies|{line}"), c(), format!("optimised build: after `{line}` perftdiv 1 lists {:?}, the rules give {:?}", got, exp));
                    }
                }
            }
            if moves.len() < depth {
                for m in p.legal_moves() {
                    let mut mv = moves.clone();
                    mv.push(m.uci());
                    stack.push((p.apply(&m), mv));
                }
            }
        }
        if let Err(m) = e.quit(Duration::from_secs(10)) {
            run.violation("blackbox-exit-status", format!("blackbox-exit|{base}"), J::Null, m);
        }
    });
    let a = n.load(Ordering::Relaxed);
    run.family("E7-POSITION", &format!("every game of length <= d from {} bases sent to the optimised binary; `d fen` and `d perftdiv 1` parsed and compared with the reference", bases.len()), a, a * 3, true, "");
    *run.traces_validated.lock().unwrap() += a;
    (a, a * 3)
}

/// C12 on the optimised build: the same script in separate processes gives the same answers; after
/// ucinewgame the answers equal those of a freshly started process.
pub fn c12(run: &Run) -> (u64, u64) {
    let Some(bin) = need_bin(run) else { return (0, 0) };
    let positions = ["position startpos moves e2e4 e7e5 g1f3", "position fen r3k2r/p1ppqpb1/bn2pnp1/3PN3/1p2P3/2N2Q1p/PPPBBPPP/R3K2R w KQkq - 0 1", "position fen 8/6k1/8/2R5/8/1K6/3Q1p2/8 w - - 1 25"];
    let mut items = vec![];
    for p in positions {
        for q in ["", "position startpos moves d2d4", positions[1]] {
            for d in [4, 7] {
                items.push((p, q, d));
            }
        }
    }
    let n = AtomicU64::new(0);
    par_for(items.len(), |i| {
        let (p, q, d) = items[i];
        let mut a: Vec<String> = vec!["setoption name Hash value 4".into(), p.into(), format!("go depth {d}"), "ucinewgame".into()];
        let mut f: Vec<String> = vec!["setoption name Hash value 4".into()];
        if !q.is_empty() {
            a.push(q.into());
            f.push(q.into());
        }
        a.push(format!("go depth {d}"));
        f.push(format!("go depth {d}"));
        n.fetch_add(1, Ordering::Relaxed);
        let (ra, ra2, rf) = (run_script(&bin, &a, true), run_script(&bin, &a, true), run_script(&bin, &f, true));
        match (ra, ra2, rf) {
            (Ok(x), Ok(y), Ok(z)) => {
                if x != y {
                    run.violation("blackbox-not-deterministic", format!("blackbox-not-deterministic|{}", a.join(" ; ")), case(&a), "optimised build: the same script in two processes gives different info / bestmove lines".into());
                }
                if x.last() != z.last() {
                    run.violation("blackbox-ucinewgame-not-fresh", format!("blackbox-ucinewgame|{}", a.join(" ; ")), case(&a), format!("optimised build: last go of [{}] differs from a fresh process given [{}]", a.join(" ; "), f.join(" ; ")));
                }
            }
            (Err((k, d)), _, _) | (_, Err((k, d)), _) | (_, _, Err((k, d))) => run.violation(&k, format!("{k}|{}", a.join(" ; ")), case(&a), d),
        }
    });
    // after `bench` the engine must still be the engine it was configured to be
    {
        let pos = "position fen r3k2r/p1ppqpb1/bn2pnp1/3PN3/1p2P3/2N2Q1p/PPPBBPPP/R3K2R w KQkq - 0 1";
        let a: Vec<String> = vec!["setoption name Hash value 1".into(), "bench".into(), "ucinewgame".into(), pos.into(), "go depth 7".into()];
        let f: Vec<String> = vec!["setoption name Hash value 1".into(), pos.into(), "go depth 7".into()];
        let bin2 = bin.clone();
        let a2 = a.clone();
        let h = std::thread::spawn(move || run_script(&bin2, &a2, true));
        let rf = run_script(&bin, &f, true);
        match (h.join().unwrap_or(Err(("blackbox-bench-failed".into(), "thread".into()))), rf) {
            (Ok(x), Ok(y)) => {
                if x.last() != y.last() {
                    run.violation("blackbox-ucinewgame-not-fresh", "blackbox-bench-then-search".into(), case(&a), format!("optimised build: after [{}] the search answers {:?}; a freshly started process given [{}] answers {:?}", a.join(" ; "), x.last().map(|v| v.0.last().cloned()), f.join(" ; "), y.last().map(|v| v.0.last().cloned())));
                }
            }
            (Err((k, d)), _) | (_, Err((k, d))) => run.violation(&k, format!("{k}|bench-then-search"), case(&a), d),
        }
        n.fetch_add(1, Ordering::Relaxed);
    }
    // the engine's own bench (87 positions, depth 10): node totals of two processes must agree
    if !run.quick() {
        let bin2 = bin.clone();
        let h = std::thread::spawn(move || bench_nodes(&bin2));
        let b1 = bench_nodes(&bin);
        let b2 = h.join().unwrap_or(Err("bench thread panicked".into()));
        match (b1, b2) {
            (Ok(x), Ok(y)) => {
                run.note(format!("bench node totals in two optimised processes: {x} and {y}"));
                if x != y {
                    run.violation("blackbox-not-deterministic", "blackbox-bench".into(), case(&["bench".to_string()]), format!("bench reports {x} nodes in one process and {y} in another"));
                }
            }
            (Err(m), _) | (_, Err(m)) => run.violation("blackbox-bench-failed", "blackbox-bench-failed".into(), case(&["bench".to_string()]), m),
        }
    }
    let a = n.load(Ordering::Relaxed);
    run.family("E7-PROCESSES", "18 scripts (earlier position, ucinewgame, optional new position, go depth 4/7), each in two optimised processes and against a freshly started process", a, a * 3, true, "address-space and process independence");
    *run.traces_validated.lock().unwrap() += a * 3;
    (a, a * 3)
}

fn bench_nodes(bin: &str) -> Result<String, String> {
    let mut e = Engine::start(bin)?;
    e.send("bench")?;
    loop {
        let v = e.wait_for("", Duration::from_secs(900))?;
        if let Some(l) = v.iter().find(|l| l.contains(" nodes ") && l.contains(" nps")) {
            return Ok(l.split_whitespace().next().unwrap_or("").to_string());
        }
    }
}

pub fn replay(run: &Run, case: &J) {
    let Some(bin) = need_bin(run) else { return };
    let lines: Vec<String> = case.get("lines").and_then(|x| x.as_arr()).map(|a| a.iter().filter_map(|x| x.as_str().map(|s| s.to_string())).collect()).unwrap_or_default();
    let mut e = Engine::start(&bin).unwrap();
    for l in &lines {
        if e.send(l).is_err() {
            break;
        }
        if l.starts_with("go") {
            let _ = e.wait_for("bestmove", T);
        }
        if l == "isready" {
            let _ = e.wait_for("readyok", T);
        }
        if l == "d fen" {
            let _ = e.wait_for("FEN:", T);
        }
        if l.starts_with("d perftdiv") {
            let _ = e.wait_for("total:", T);
        }
    }
    std::thread::sleep(Duration::from_millis(200));
    let alive = e.alive();
    for t in &e.transcript {
        println!("{t}");
    }
    println!("engine alive at the end: {alive}");
    if !alive {
        run.violation("blackbox-engine-died", String::new(), J::Null, "the engine process ended".into());
    }
}


/// C14, wall-clock clause ("given at least a fifth of a second on its clock, a search returns its move before that
/// clock would have run out"), on the optimised binary. This part is a MEASUREMENT, not an enumeration: real time
/// cannot be enumerated. To stay silent on a loaded machine a scenario counts as violated only if the BEST of eight
/// attempts (fresh process each) oversteps the clock, and only if a calibration run shows that the sandbox can time
/// a 100 ms search to within 60 ms at all; otherwise the family is reported as not completed.
pub fn c14_wallclock(run: &Run) -> (u64, u64) {
    use std::time::{Duration, Instant};
    if crate::report::is_nd_child().is_some() {
        return (0, 0); // one copy of the measurement is enough, and two would disturb each other
    }
    let Some(bin) = need_bin(run) else { return (0, 0) };
    let hash_max = crate::ucichk::spin_options().iter().find(|o| o.name == "Hash").map(|o| o.max).unwrap_or(256);
    let big = hash_max.min(2048);
    let attempt = |prelude: &[String], go: &str| -> Result<Duration, String> {
        let mut e = Engine::start(&bin)?;
        e.send("uci")?;
        e.wait_for("uciok", Duration::from_secs(20))?;
        let mut ready = 0usize;
        for l in prelude {
            e.send(l)?;
            if l == "isready" {
                ready += 1;
                e.wait_for_count("readyok", ready, Duration::from_secs(120))?;
            }
            if l.starts_with("go ") {
                let n = e.count("bestmove") + 1;
                e.wait_for_count("bestmove", n, Duration::from_secs(120))?;
            }
        }
        e.send("isready")?;
        e.wait_for_count("readyok", ready + 1, Duration::from_secs(120))?;
        let before = e.count("bestmove");
        let t0 = Instant::now();
        e.send(go)?;
        e.wait_for_count("bestmove", before + 1, Duration::from_secs(30))?;
        let dt = t0.elapsed();
        let _ = e.quit(Duration::from_secs(10));
        Ok(dt)
    };
    // calibration
    let mut cal = Duration::from_secs(99);
    for _ in 0..5 {
        if let Ok(d) = attempt(&["position startpos".to_string()], "go movetime 100") {
            cal = cal.min(d);
        }
    }
    run.note(format!("wall-clock calibration: best of five `go movetime 100` answered after {cal:?}"));
    if cal > Duration::from_millis(160) {
        run.note("the sandbox is too loaded to time searches: the wall-clock scenarios were not judged".to_string());
        run.family("E7-WALL-CLOCK", "measurement (not an enumeration): skipped, calibration failed", 0, 0, false, "sandbox too loaded");
        return (0, 0);
    }
    let kiwi = "position fen r3k2r/p1ppqpb1/bn2pnp1/3PN3/1p2P3/2N2Q1p/PPPBBPPP/R3K2R w KQkq - 0 1".to_string();
    let kiwib = "position fen r3k2r/p1ppqpb1/bn2pnp1/3PN3/1p2P3/2N2Q1p/PPPBBPPP/R3K2R w KQkq - 0 1 moves e1g1".to_string();
    let sp = "position startpos".to_string();
    let hash = |n: usize| format!("setoption name Hash value {n}");
    let scenarios: Vec<(Vec<String>, &str, u64)> = vec![
        (vec![sp.clone()], "go wtime 200 btime 200", 200),
        (vec![kiwib.clone()], "go wtime 200 btime 200", 200),
        (vec![hash(big), "isready".into(), "ucinewgame".into(), "isready".into(), sp.clone()], "go wtime 200 btime 200", 200),
        (vec![hash(big), "isready".into(), kiwi.clone(), "go depth 9".into(), "ucinewgame".into(), "isready".into(), kiwi.clone()], "go wtime 250 btime 250 winc 10 binc 10", 250),
        (vec![kiwi.clone(), "go depth 9".into(), hash(big), "isready".into(), kiwi.clone()], "go wtime 200 btime 200", 200),
        (vec![hash(big), "isready".into(), sp.clone(), "go depth 8".into(), sp.clone()], "go wtime 200 btime 200 movestogo 1", 200),
        // the 256th search of a session on the largest table
        ({
            let mut v = vec![hash(big), "isready".into(), sp.clone()];
            for _ in 0..255 {
                v.push("go depth 1".into());
            }
            v
        }, "go wtime 200 btime 200", 200),
    ];
    let mut n = 0u64;
    for (prelude, go, clock_ms) in &scenarios {
        let mut best = Duration::from_secs(99);
        let mut errs = vec![];
        for _ in 0..8 {
            n += 1;
            match attempt(prelude, go) {
                Ok(d) => {
                    best = best.min(d);
                    if d < Duration::from_millis(*clock_ms) / 2 + Duration::from_millis(20) {
                        break;
                    }
                }
                Err(e) => errs.push(e),
            }
        }
        let mut lines = prelude.clone();
        lines.push(go.to_string());
        run.distinct_outcome(format!("{} ms class", best.as_millis() / 25 * 25));
        if errs.len() == 8 {
            run.violation("blackbox-no-bestmove", format!("wallclock|{}", lines.join(" ; ")), case(&lines), format!("optimised build, [{}]: {}", lines.join(" ; "), errs[0]));
        } else if best >= Duration::from_millis(*clock_ms) {
            run.violation("move-after-the-clock-ran-out", format!("wallclock|{}", lines.join(" ; ")), J::obj(vec![("kind", J::s("wallclock")), ("lines", J::Arr(lines.iter().map(|l| J::s(l.clone())).collect())), ("clock_ms", J::i(*clock_ms))]), format!("optimised build, [{}]: the best of eight attempts answered after {best:?} with {clock_ms} ms on the clock (calibration: a 100 ms search is timed as {cal:?})", lines.join(" ; ")));
        }
    }
    run.family("E7-WALL-CLOCK", &format!("measurement (not an enumeration): 7 scenarios on the optimised binary (plain; first search after ucinewgame on a {big} MB table, empty and used; first search after a resize; used large table; the 256th search of a session), clock 200-250 ms, best of up to eight attempts each must answer before the clock runs out"), n, n, true, "labelled measurement; real time cannot be enumerated");
    (n, n)
}
