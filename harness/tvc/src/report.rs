//! Run report: violations, counters, samples, evidence file, known findings.

#![allow(dead_code)]

use crate::util::J;
use std::collections::{BTreeMap, BTreeSet};
use std::sync::Mutex;
use std::time::Instant;

#[derive(Clone, Debug)]
pub struct Violation {
    /// short class of the violation, e.g. "movegen-mismatch"
    pub kind: String,
    /// stable identification of the failing input / history (used for known findings and de-duplication)
    pub key: String,
    /// everything needed to re-execute this single case (JSON object; always has "kind")
    pub case: J,
    /// observed vs expected, free text
    pub detail: String,
}

pub struct Family {
    pub name: String,
    pub bound: String,
    pub states: u64,
    pub transitions: u64,
    pub completed: bool,
    pub note: String,
}

pub struct Run {
    pub prop: String,
    pub tier: String,
    pub seed: u64,
    pub start: Instant,
    pub violations: Mutex<Vec<Violation>>,
    pub violation_count: Mutex<BTreeMap<String, u64>>,
    pub counters: Mutex<BTreeMap<String, u64>>,
    pub samples: Mutex<Vec<J>>,
    pub families: Mutex<Vec<Family>>,
    pub distinct: Mutex<BTreeSet<String>>,
    pub notes: Mutex<Vec<String>>,
    pub assumptions: Mutex<Vec<String>>,
    pub traces_validated: Mutex<u64>,
    pub machinery_errors: Mutex<Vec<String>>,
}

pub const MAX_STORED_PER_KIND: u64 = 25;

/// Second build profile: the same check executed by a build of this harness WITHOUT debug assertions and overflow
/// checks (what the engine ships with), started next to the main run and merged into its report.  A change whose
/// effect exists only when `debug_assert!` arguments are not evaluated, or when arithmetic wraps, is invisible to
/// the checked build alone.
struct NdChild {
    child: std::process::Child,
    summary: String,
    log: String,
}
static ND_CHILD: Mutex<Option<NdChild>> = Mutex::new(None);

pub fn is_nd_child() -> Option<String> {
    std::env::var("TVC_ND_CHILD").ok().filter(|s| !s.is_empty())
}

pub fn nd_start(prop: &str) {
    if is_nd_child().is_some() {
        return;
    }
    let Ok(bin) = std::env::var("VERIF_ND_BIN") else { return };
    if bin.is_empty() {
        return;
    }
    let verif_dir = std::env::var("VERIF_DIR").unwrap_or_else(|_| "/verif".to_string());
    let dir = format!("{verif_dir}/build/nd");
    let _ = std::fs::create_dir_all(&dir);
    let summary = format!("{dir}/{prop}.json");
    let log = format!("{dir}/{prop}.log");
    let _ = std::fs::remove_file(&summary);
    let Ok(logf) = std::fs::File::create(&log) else { return };
    let Ok(logf2) = logf.try_clone() else { return };
    // the second profile always runs the quick tier: what it looks for (code that behaves differently without
    // assertions / with wrapping arithmetic) is not rare in position space
    match std::process::Command::new(&bin).arg(prop).arg("quick").env("TVC_ND_CHILD", &summary).env_remove("VERIF_ND_BIN").stdout(logf).stderr(logf2).spawn() {
        Ok(child) => *ND_CHILD.lock().unwrap() = Some(NdChild { child, summary, log }),
        Err(e) => eprintln!("MACHINERY ERROR: cannot start {bin}: {e}"),
    }
}

/// Wait for the second-profile run and fold its families, counts and violations into this run.
fn nd_join(run: &Run) -> (u64, u64) {
    let Some(mut nd) = ND_CHILD.lock().unwrap().take() else {
        if std::env::var("VERIF_ND_BIN").map(|s| !s.is_empty()).unwrap_or(false) && is_nd_child().is_none() {
            run.machinery_error("second-profile run was requested but could not be started");
        }
        return (0, 0);
    };
    let status = nd.child.wait();
    let text = std::fs::read_to_string(&nd.summary).unwrap_or_default();
    let Ok(j) = J::parse(&text) else {
        // killed by a fault signal: without its checks the unchecked build walked into undefined behaviour inside the
        // subject (the checked build panics or aborts at the same place, or the defect exists in this profile only).
        // Anything else (killed from outside, out of memory) is a failure of the machinery.
        use std::os::unix::process::ExitStatusExt;
        let sig = status.as_ref().ok().and_then(|s| s.signal());
        if matches!(sig, Some(4 | 6 | 7 | 8 | 11)) {
            let tail: String = std::fs::read_to_string(&nd.log).unwrap_or_default().lines().rev().take(5).collect::<Vec<_>>().into_iter().rev().collect::<Vec<_>>().join(" | ");
            run.violation("nd:process-crash", format!("nd|process-crash|signal {}", sig.unwrap()), J::obj(vec![("kind", J::s("nd-crash")), ("profile", J::s("nd")), ("property", J::s(run.prop.clone())), ("tier", J::s("quick"))]), format!("[build without debug assertions / overflow checks] the run of this check died with signal {} (last output: {tail})", sig.unwrap()));
        } else {
            run.machinery_error(format!("second-profile run left no summary (status {status:?}); see {}", nd.log));
        }
        return (0, 0);
    };
    let geti = |k: &str| j.get(k).and_then(|x| x.as_i64()).unwrap_or(0) as u64;
    let (st, tr) = (geti("states"), geti("transitions"));
    run.family(
        "PROFILE-NDEBUG",
        "the quick tier of this same check, executed by a second build of the harness without debug assertions and overflow checks (the profile the engine ships with)",
        st,
        tr,
        j.get("completed").map(|x| matches!(x, J::Bool(true))).unwrap_or(false),
        &format!("{} families, {} distinct outcomes, {:.1}s", geti("families"), geti("distinct"), j.get("wall_s").and_then(|x| if let J::Num(f) = x { Some(*f) } else { x.as_i64().map(|i| i as f64) }).unwrap_or(0.0)),
    );
    run.count("nd_profile_states", st);
    if let Some(errs) = j.get("machinery_errors").and_then(|x| x.as_arr()) {
        for e in errs {
            run.machinery_error(format!("second-profile run: {}", e.as_str().unwrap_or("?")));
        }
    }
    let mut stored: BTreeMap<String, u64> = BTreeMap::new();
    if let Some(vs) = j.get("violations").and_then(|x| x.as_arr()) {
        for v in vs {
            let kind = format!("nd:{}", v.get("kind").and_then(|x| x.as_str()).unwrap_or("?"));
            let mut case = v.get("case").cloned().unwrap_or(J::Null);
            if let J::Obj(kv) = &mut case {
                kv.push(("profile".to_string(), J::s("nd")));
            }
            *stored.entry(kind.clone()).or_insert(0) += 1;
            run.violations.lock().unwrap().push(Violation {
                kind,
                key: format!("nd|{}", v.get("key").and_then(|x| x.as_str()).unwrap_or("?")),
                case,
                detail: format!("[build without debug assertions / overflow checks] {}", v.get("detail").and_then(|x| x.as_str()).unwrap_or("")),
            });
        }
    }
    if let Some(J::Obj(kv)) = j.get("violation_kinds") {
        let mut c = run.violation_count.lock().unwrap();
        for (k, n) in kv {
            *c.entry(format!("nd:{k}")).or_insert(0) += n.as_i64().unwrap_or(0) as u64;
        }
    }
    (st, tr)
}

impl Run {
    pub fn new(prop: &str, tier: &str, seed: u64) -> Run {
        Run {
            prop: prop.to_string(),
            tier: tier.to_string(),
            seed,
            start: Instant::now(),
            violations: Mutex::new(vec![]),
            violation_count: Mutex::new(BTreeMap::new()),
            counters: Mutex::new(BTreeMap::new()),
            samples: Mutex::new(vec![]),
            families: Mutex::new(vec![]),
            distinct: Mutex::new(BTreeSet::new()),
            notes: Mutex::new(vec![]),
            assumptions: Mutex::new(vec![]),
            traces_validated: Mutex::new(0),
            machinery_errors: Mutex::new(vec![]),
        }
    }

    pub fn quick(&self) -> bool {
        self.tier == "quick"
    }

    pub fn violation(&self, kind: &str, key: String, case: J, detail: String) {
        let mut c = self.violation_count.lock().unwrap();
        let n = c.entry(kind.to_string()).or_insert(0);
        *n += 1;
        if *n <= MAX_STORED_PER_KIND {
            self.violations.lock().unwrap().push(Violation { kind: kind.to_string(), key, case, detail });
        }
    }

    pub fn count(&self, name: &str, n: u64) {
        *self.counters.lock().unwrap().entry(name.to_string()).or_insert(0) += n;
    }

    pub fn merge_counts(&self, m: &BTreeMap<&'static str, u64>) {
        let mut c = self.counters.lock().unwrap();
        for (k, v) in m {
            *c.entry((*k).to_string()).or_insert(0) += *v;
        }
    }

    pub fn counter(&self, name: &str) -> u64 {
        *self.counters.lock().unwrap().get(name).unwrap_or(&0)
    }

    pub fn sample(&self, j: J) {
        let mut s = self.samples.lock().unwrap();
        if s.len() < 12 {
            s.push(j);
        }
    }

    pub fn family(&self, name: &str, bound: &str, states: u64, transitions: u64, completed: bool, note: &str) {
        eprintln!("[{}] family {name} ({bound}): states={states} transitions={transitions} completed={completed} {note} t={:.1}s", self.prop, self.start.elapsed().as_secs_f64());
        self.families.lock().unwrap().push(Family { name: name.into(), bound: bound.into(), states, transitions, completed, note: note.into() });
    }

    pub fn note(&self, s: impl Into<String>) {
        self.notes.lock().unwrap().push(s.into());
    }

    pub fn assume(&self, s: impl Into<String>) {
        self.assumptions.lock().unwrap().push(s.into());
    }

    pub fn machinery_error(&self, s: impl Into<String>) {
        let s = s.into();
        eprintln!("MACHINERY ERROR: {s}");
        self.machinery_errors.lock().unwrap().push(s);
    }

    /// Vacuity guard: a feature the exploration must have exercised.
    pub fn require(&self, counter: &str, min: u64) {
        let v = self.counter(counter);
        if v < min {
            self.machinery_error(format!("vacuity guard: counter '{counter}' = {v} < {min}"));
        }
    }

    /// Like `distinct_outcome`, but de-duplicated per thread first (for hot paths): `sig` identifies the outcome.
    pub fn distinct_outcome_sig(&self, sig: u64, describe: impl FnOnce() -> String) {
        thread_local! {
            static SEEN: std::cell::RefCell<std::collections::HashSet<u64>> = std::cell::RefCell::new(std::collections::HashSet::new());
        }
        let fresh = SEEN.with(|s| {
            let mut s = s.borrow_mut();
            if s.len() > 200_000 {
                return false;
            }
            s.insert(sig)
        });
        if fresh {
            self.distinct_outcome(describe());
        }
    }

    pub fn distinct_outcome(&self, s: String) {
        let mut d = self.distinct.lock().unwrap();
        if d.len() < 100_000 {
            d.insert(s);
        }
    }
}

pub struct Known {
    pub status: String,
    pub property: String,
    pub matcher: String,
    pub what: String,
}

pub fn load_known(path: &str) -> Vec<Known> {
    let mut out = vec![];
    let Ok(text) = std::fs::read_to_string(path) else { return out };
    for line in text.lines() {
        let line = line.trim();
        if line.is_empty() || line.starts_with('#') {
            continue;
        }
        if let Ok(j) = J::parse(line) {
            out.push(Known {
                status: j.get("status").and_then(|x| x.as_str()).unwrap_or("").to_string(),
                property: j.get("property").and_then(|x| x.as_str()).unwrap_or("").to_string(),
                matcher: j.get("match").and_then(|x| x.as_str()).unwrap_or("").to_string(),
                what: j.get("what").and_then(|x| x.as_str()).unwrap_or("").to_string(),
            });
        }
    }
    out
}

/// Write evidence and replays, print the verdict lines, return the process exit code.
pub fn finish(run: &Run, level_states: u64, level_transitions: u64, rule: &str, exhaustive: bool) -> i32 {
    let verif_dir = std::env::var("VERIF_DIR").unwrap_or_else(|_| "/verif".to_string());
    if let Some(path) = is_nd_child() {
        return finish_nd_child(run, &path, level_states, level_transitions);
    }
    let (nd_states, nd_transitions) = nd_join(run);
    let (level_states, level_transitions) = (level_states + nd_states, level_transitions + nd_transitions);
    let known = load_known(&format!("{verif_dir}/known_findings.jsonl"));
    let wall = run.start.elapsed().as_secs_f64();
    let viols = run.violations.lock().unwrap().clone();
    let counts = run.violation_count.lock().unwrap().clone();
    let total: u64 = counts.values().sum();
    let replay_dir = format!("{verif_dir}/replays/{}", run.prop);
    let _ = std::fs::remove_dir_all(&replay_dir);
    let _ = std::fs::create_dir_all(&replay_dir);
    let mut new_violations = 0u64;
    let mut known_hits: BTreeMap<String, u64> = BTreeMap::new();
    let mut lines = vec![];
    for (n, v) in viols.iter().enumerate() {
        let k = known.iter().find(|k| k.status == "known" && k.property == run.prop && !k.matcher.is_empty() && v.key.contains(&k.matcher));
        if let Some(k) = k {
            *known_hits.entry(format!("{} [{}]", k.what, k.matcher)).or_insert(0) += 1;
            continue;
        }
        new_violations += 1;
        let path = format!("{replay_dir}/{n}.json");
        let j = J::obj(vec![
            ("property", J::s(run.prop.clone())),
            ("kind", J::s(v.kind.clone())),
            ("key", J::s(v.key.clone())),
            ("case", v.case.clone()),
            ("detail", J::s(v.detail.clone())),
        ]);
        let _ = std::fs::write(&path, j.dump());
        lines.push(format!("VIOLATION property={} replay={}", run.prop, path));
        eprintln!("  violation [{}] {} :: {}", v.kind, v.key, v.detail);
    }
    // violations beyond the stored cap are unknown by construction (they were not matched)
    let stored: u64 = viols.len() as u64;
    let unstored = total - stored;
    let fams = run.families.lock().unwrap();
    let all_completed = fams.iter().all(|f| f.completed);
    for e in crate::util::ESCAPED.lock().unwrap().iter().take(5) {
        run.machinery_error(format!("panic escaped a worker: {e}"));
    }
    let merr = run.machinery_errors.lock().unwrap().clone();
    let samples = run.samples.lock().unwrap().clone();
    let distinct = run.distinct.lock().unwrap().len() as u64;
    let cov = J::obj(vec![
        ("states", J::i(level_states.max(1))),
        ("transitions", J::i(level_transitions.max(1))),
        ("traces_validated_against_impl", J::i(*run.traces_validated.lock().unwrap())),
        ("samples", J::Arr(if samples.is_empty() { vec![J::s("(no sample recorded)")] } else { samples })),
        ("evaluations", J::i(level_states.max(1))),
        ("distinct_nontrivial", J::i(distinct)),
        ("rule", J::s(format!("{rule} || distinct_nontrivial = number of distinct OUTCOMES observed by this run (measured, capped at 100 000): position sweeps: (number of legal moves, live rule features) signatures; searches: (best move, score, depth, info lines); tables: attack sets / canonical table states; clocks: (soft, hard) pairs; command loop: resulting positions / schedule-count classes / command lines. One outcome from many executions would mean nothing was exercised."))),
        ("exhaustive", J::Bool(exhaustive && all_completed)),
        (
            "families",
            J::Arr(
                fams.iter()
                    .map(|f| {
                        J::obj(vec![
                            ("name", J::s(f.name.clone())),
                            ("bound", J::s(f.bound.clone())),
                            ("states", J::i(f.states)),
                            ("transitions", J::i(f.transitions)),
                            ("completed", J::Bool(f.completed)),
                            ("note", J::s(f.note.clone())),
                        ])
                    })
                    .collect(),
            ),
        ),
        ("counters", J::from_map(&run.counters.lock().unwrap())),
        ("violation_kinds", J::from_map(&counts)),
        ("known_findings_hit", J::from_map(&known_hits)),
        ("notes", J::Arr(run.notes.lock().unwrap().iter().map(|s| J::s(s.clone())).collect())),
        ("machinery_errors", J::Arr(merr.iter().map(|s| J::s(s.clone())).collect())),
    ]);
    let ev = J::obj(vec![
        ("property_id", J::s(run.prop.clone())),
        ("tier", J::s(run.tier.clone())),
        ("seed", J::i(run.seed)),
        ("level", J::s("model_checking")),
        ("coverage", cov),
        ("assumptions", J::Arr(run.assumptions.lock().unwrap().iter().map(|s| J::s(s.clone())).collect())),
        ("wall_s", J::Num(wall)),
        ("violations", J::i(new_violations + unstored)),
    ]);
    let _ = std::fs::create_dir_all(format!("{verif_dir}/evidence"));
    let evp = format!("{verif_dir}/evidence/{}.json", run.prop);
    if let Err(e) = std::fs::write(&evp, ev.dump()) {
        eprintln!("cannot write {evp}: {e}");
        return 2;
    }
    for (k, n) in &known_hits {
        println!("KNOWN-FINDING: property={} {} ({} case(s))", run.prop, k, n);
    }
    for l in lines.iter().take(10) {
        println!("{l}");
    }
    if lines.len() > 10 {
        println!("(... {} more stored violation cases under {replay_dir}, {} counted in total)", lines.len() - 10, total);
    }
    eprintln!(
        "[{}] {} tier: states={} transitions={} violations={} (new {}, beyond-cap {}) known={} wall={:.1}s",
        run.prop,
        run.tier,
        level_states,
        level_transitions,
        total,
        new_violations,
        unstored,
        known_hits.values().sum::<u64>(),
        wall
    );
    if !merr.is_empty() {
        return 2;
    }
    if new_violations + unstored > 0 {
        if lines.is_empty() {
            println!("VIOLATION property={} replay={}", run.prop, evp);
        }
        return 1;
    }
    0
}

/// The second-profile run reports to its parent through a summary file only (no evidence, no replays, no verdict lines).
fn finish_nd_child(run: &Run, path: &str, level_states: u64, level_transitions: u64) -> i32 {
    for e in crate::util::ESCAPED.lock().unwrap().iter().take(5) {
        run.machinery_error(format!("panic escaped a worker: {e}"));
    }
    let viols = run.violations.lock().unwrap().clone();
    let fams = run.families.lock().unwrap();
    let merr = run.machinery_errors.lock().unwrap().clone();
    let j = J::obj(vec![
        ("property", J::s(run.prop.clone())),
        ("states", J::i(level_states)),
        ("transitions", J::i(level_transitions)),
        ("families", J::i(fams.len() as u64)),
        ("completed", J::Bool(fams.iter().all(|f| f.completed))),
        ("distinct", J::i(run.distinct.lock().unwrap().len() as u64)),
        ("wall_s", J::Num(run.start.elapsed().as_secs_f64())),
        ("violation_kinds", J::from_map(&run.violation_count.lock().unwrap())),
        ("machinery_errors", J::Arr(merr.iter().map(|s| J::s(s.clone())).collect())),
        (
            "violations",
            J::Arr(viols.iter().map(|v| J::obj(vec![("kind", J::s(v.kind.clone())), ("key", J::s(v.key.clone())), ("case", v.case.clone()), ("detail", J::s(v.detail.clone()))])).collect()),
        ),
    ]);
    if let Err(e) = std::fs::write(path, j.dump()) {
        eprintln!("cannot write {path}: {e}");
        return 2;
    }
    if !merr.is_empty() {
        2
    } else if viols.is_empty() {
        0
    } else {
        1
    }
}
