//! Position families (DESIGN.md 4.2): seeds for F-REACH and complete enumerators for bounded material.

#![allow(dead_code)]

use crate::refchess::{self as rc, sq, Color, Kind, Pos};

pub struct Seed {
    pub name: &'static str,
    pub fen: &'static str,
    /// large middlegame seeds get one ply less
    pub big: bool,
}

/// Positions with (nearly) as many legal moves as a legal position can have: 218 (both known records), 148 and 133,
/// each also with the colours swapped. Visited by F-REACH to depth 1 only (their trees explode).
pub fn many_move_seeds() -> Vec<Seed> {
    let s = |name, fen| Seed { name, fen, big: true };
    vec![
        s("moves-218a", "R6R/3Q4/1Q4Q1/4Q3/2Q4Q/Q4Q2/pp1Q4/kBNN1KB1 w - - 0 1"),
        s("moves-218a-b", "Kbnn1kb1/PP1q4/q4q2/2q4q/4q3/1q4q1/3q4/r6r b - - 0 1"),
        s("moves-218b", "3Q4/1Q4Q1/4Q3/2Q4R/Q4Q2/3Q4/1Q4Rp/1K1BBNNk w - - 0 1"),
        s("moves-218b-b", "1k1bbnnK/1q4rP/3q4/q4q2/2q4r/4q3/1q4q1/3q4 b - - 0 1"),
        s("moves-148", "R6R/8/1Q4Q1/4Q3/7Q/5Q2/pp6/kBNN1KB1 w - - 0 1"),
        s("moves-133", "7R/8/1Q4Q1/4Q3/7Q/5Q2/pp6/kBN2K2 w - - 0 1"),
    ]
}

pub fn seeds() -> Vec<Seed> {
    let s = |name, fen, big| Seed { name, fen, big };
    vec![
        s("startpos", "rnbqkbnr/pppppppp/8/8/8/8/PPPPPPPP/RNBQKBNR w KQkq - 0 1", true),
        s("kiwipete", "r3k2r/p1ppqpb1/bn2pnp1/3PN3/1p2P3/2N2Q1p/PPPBBPPP/R3K2R w KQkq - 0 1", true),
        s("cpw3", "8/2p5/3p4/KP5r/1R3p1k/8/4P1P1/8 w - - 0 1", false),
        s("cpw4", "r3k2r/Pppp1ppp/1b3nbN/nP6/BBP1P3/q4N2/Pp1P2PP/R2Q1RK1 w kq - 0 1", true),
        s("cpw4m", "r2q1rk1/pP1p2pp/Q4n2/bbp1p3/Np6/1B3NBn/pPPP1PPP/R3K2R b KQ - 0 1", true),
        s("cpw5", "rnbq1k1r/pp1Pbppp/2p5/8/2B5/8/PPP1NnPP/RNBQK2R w KQ - 1 8", true),
        s("cpw6", "r4rk1/1pp1qppp/p1np1n2/2b1p1B1/2B1P1b1/P1NP1N2/1PP1QPPP/R4RK1 w - - 0 10", true),
        // en passant x pins x discovered attacks
        s("ep-rank-pin", "8/8/8/8/k2Pp2Q/8/8/3K4 b - d3 0 1", false),
        s("ep-rank-pin-w", "8/8/8/K2pP2q/8/8/8/3k4 w - d6 0 1", false),
        s("ep-diag-pin-along", "7b/8/8/4Pp2/3K4/8/8/k7 w - f6 0 1", false),
        s("ep-diag-pin-across", "b7/8/8/3Pp3/4K3/8/8/k7 w - e6 0 1", false),
        s("ep-diag-pin-along-b", "K7/8/8/3k4/4pP2/8/8/7B b - f3 0 1", false),
        s("ep-removes-checker", "8/8/8/2k5/3Pp3/8/8/4K3 b - d3 0 1", false),
        s("ep-checker-pawn-w", "8/8/8/3pP3/2K5/8/8/4k3 w - d6 0 1", false),
        s("ep-discovers-file", "4r3/8/8/3pP3/8/8/8/4K2k w - d6 0 1", false),
        s("ep-prepare", "4k3/3p1p2/8/4P3/4p3/8/3P1P2/4K3 w - - 0 1", false),
        s("ep-prepare-pins", "b3k2b/3p1p2/8/4P3/2q1p1Q1/8/3P1P2/B3K2B w - - 0 1", false),
        // double check, check evasions, promotions while in check
        s("double-check", "4k3/8/8/8/1b6/8/3N4/r3K3 w - - 0 1", false),
        s("double-check-disc", "6k1/8/8/8/8/5n2/4r3/R3K2R w KQ - 0 1", false),
        s("promo-in-check", "3rk3/2P5/8/8/8/8/8/3K4 w - - 0 1", false),
        s("promo-capture-check", "1n1rk3/2P5/8/8/8/8/8/3K4 w - - 0 1", false),
        s("promo-both", "r3k2r/1P4P1/8/8/8/8/1p4p1/R3K2R w KQkq - 0 1", false),
        s("underpromo-mate", "8/5P1k/8/6K1/8/8/8/8 w - - 0 1", false),
        // castling with attacked squares, both colours and sides
        s("castle-all", "r3k2r/8/8/8/8/8/8/R3K2R w KQkq - 0 1", false),
        s("castle-attacked-transit", "r3k2r/8/8/8/8/5q2/8/R3K2R w KQkq - 0 1", false),
        s("castle-attacked-b1", "r3k2r/8/8/8/8/8/1n4N1/R3K2R b KQkq - 0 1", false),
        s("castle-rook-attacked", "r3k2r/8/8/8/8/8/6b1/R3K2R w KQkq - 0 1", false),
        s("castle-blocked", "rn2k1nr/8/8/8/8/8/8/RN2K1NR w KQkq - 0 1", false),
        s("castle-rook-captures-rook", "r3k2r/8/8/8/8/8/8/R3K2R b KQkq - 0 1", false),
        // pinned pieces moving along the pin ray
        s("pins-along-ray", "4k3/4r3/8/b7/3P4/2P1R3/3K4/8 w - - 0 1", false),
        s("pinned-pawn-push", "4r2k/8/8/8/8/8/4P3/4K3 w - - 0 1", false),
        s("pinned-pawn-capture", "7k/8/8/8/1b6/2P5/3K4/8 w - - 0 1", false),
        s("pinned-slider", "4r2k/8/8/8/4R3/8/8/4K3 w - - 0 1", false),
        // clocks and bare material
        s("hmc-98", "4k3/8/8/8/8/8/3R4/4K3 w - - 98 60", false),
        s("hmc-99", "4k3/8/8/8/8/8/4P3/4K2R b K - 99 60", false),
        s("bare-minor", "4k3/8/8/8/8/8/8/4KB2 w - - 0 1", false),
        s("two-knights", "4k3/8/8/8/8/8/8/1N2K1N1 w - - 0 1", false),
        s("kq-k", "8/8/8/4k3/8/8/8/3QK3 w - - 0 1", false),
        s("kp-k", "8/8/8/4k3/8/8/4P3/4K3 w - - 0 1", false),
        // SAN disambiguation and SEE material
        s("disamb-knights", "k7/8/8/8/8/5N2/8/KN3N2 w - - 0 1", false),
        s("disamb-queens", "1k6/8/8/8/Q6Q/8/8/K6Q w - - 0 1", false),
        s("disamb-rooks", "3r3r/8/8/R7/4k3/R7/1K6/7r b - - 0 1", false),
        s("see-battery", "1k1r3q/1ppn3p/p4b2/4p3/8/P2N2P1/1PP1R1BP/2K1Q3 w - - 0 1", true),
        s("see-xray", "k7/2q2n2/8/4p2R/5P2/2B1Q3/8/6K1 w - - 0 1", false),
        s("tactical-prop", "8/6k1/8/2R5/8/1K6/3Q1p2/8 w - - 1 25", false),
    ]
}

pub fn seed_positions() -> Vec<(String, Pos)> {
    seeds().iter().map(|s| (s.name.to_string(), Pos::from_fen(s.fen).unwrap_or_else(|e| panic!("bad seed {}: {e}", s.name)))).collect()
}

/// A man to place: colour and kind.
pub type Man = (Color, Kind);

pub const ALL_MEN: [Man; 10] = [
    (Color::W, Kind::Q),
    (Color::W, Kind::R),
    (Color::W, Kind::B),
    (Color::W, Kind::N),
    (Color::W, Kind::P),
    (Color::B, Kind::Q),
    (Color::B, Kind::R),
    (Color::B, Kind::B),
    (Color::B, Kind::N),
    (Color::B, Kind::P),
];

/// All consistent subsets of castling rights for a placement.
fn castle_options(p: &Pos) -> Vec<[bool; 4]> {
    let can = [
        p.at(4, 0) == Some((Color::W, Kind::K)) && p.at(7, 0) == Some((Color::W, Kind::R)),
        p.at(4, 0) == Some((Color::W, Kind::K)) && p.at(0, 0) == Some((Color::W, Kind::R)),
        p.at(4, 7) == Some((Color::B, Kind::K)) && p.at(7, 7) == Some((Color::B, Kind::R)),
        p.at(4, 7) == Some((Color::B, Kind::K)) && p.at(0, 7) == Some((Color::B, Kind::R)),
    ];
    let mut out = vec![];
    for mask in 0..16u8 {
        let c = [mask & 1 != 0, mask & 2 != 0, mask & 4 != 0, mask & 8 != 0];
        if (0..4).all(|i| !c[i] || can[i]) {
            out.push(c);
        }
    }
    out
}

/// All consistent en-passant targets (None included) for a placement and side to move.
fn ep_options(p: &Pos) -> Vec<Option<rc::Sq>> {
    let mut out = vec![None];
    let them = p.side.other();
    let (er, pr, orr) = if them == Color::W { (2, 3, 1) } else { (5, 4, 6) };
    for f in 0..8 {
        if p.at(f, pr) == Some((them, Kind::P)) && p.at(f, er).is_none() && p.at(f, orr).is_none() {
            out.push(Some(sq(f, er)));
        }
    }
    out
}

/// For a bare placement (kings + men on the board, nothing else set): every legal completion with
/// side to move, castling rights and en-passant target. Calls `f` for each legal position.
pub fn completions(base: &Pos, f: &mut dyn FnMut(&Pos)) {
    for side in [Color::W, Color::B] {
        let mut p = base.clone();
        p.side = side;
        p.castle = [false; 4];
        p.ep = None;
        if p.in_check(side.other()) {
            continue;
        }
        for c in castle_options(&p) {
            for e in ep_options(&p) {
                let mut q = p.clone();
                q.castle = c;
                q.ep = e;
                if q.is_legal_position() {
                    f(&q);
                }
            }
        }
    }
}

fn pawn_ok(m: Man, s: u8) -> bool {
    m.1 != Kind::P || (rc::rank_of(s) != 0 && rc::rank_of(s) != 7)
}

/// F-MAT: all placements of both kings (white king on `wk`) plus `men` on distinct squares.
/// Sharded by the white king's square so that 64 shards can run in parallel.
pub fn enumerate_material(wk: u8, men: &[Man], f: &mut dyn FnMut(&Pos)) {
    for bk in 0..64u8 {
        enumerate_material_kk(wk, bk, men, f);
    }
}

/// One (white king, black king) shard of F-MAT.
pub fn enumerate_material_kk(wk: u8, only_bk: u8, men: &[Man], f: &mut dyn FnMut(&Pos)) {
    let mut p = Pos::empty();
    p.board[wk as usize] = Some((Color::W, Kind::K));
    for bk in only_bk..=only_bk {
        if bk == wk {
            continue;
        }
        // kings may not touch
        if (rc::file_of(bk) - rc::file_of(wk)).abs() <= 1 && (rc::rank_of(bk) - rc::rank_of(wk)).abs() <= 1 {
            continue;
        }
        p.board[bk as usize] = Some((Color::B, Kind::K));
        place_men(&mut p, men, 0, 0, f);
        p.board[bk as usize] = None;
    }
}

/// F-EP-PUSH: the positions BEFORE the double step of every en-passant constellation of F-EP (the pushed pawn back on
/// its home square, the pusher to move), so that the double step itself is made by the engine.
pub fn enumerate_ep_push(f_pushed: i32, extra: Option<Man>, cb: &mut dyn FnMut(&Pos)) {
    enumerate_ep(f_pushed, extra, true, false, &mut |p: &Pos| {
        let Some(target) = p.ep else { return };
        let pusher = p.side.other();
        let (to, from) = if pusher == Color::B { (target - 8, target + 8) } else { (target + 8, target - 8) };
        let mut before = p.clone();
        before.board[from as usize] = before.board[to as usize].take();
        before.side = pusher;
        before.ep = None;
        before.halfmove = 5;
        if before.is_legal_position() {
            cb(&before);
        }
    });
}

/// F-CORNER: both kings fixed (`wk`, `bk`), `men` on all distinct squares with `men[0]` on `first_sq` (one shard),
/// both sides to move, and the colour-mirrored twin of each position.  Fixing the kings makes three further men
/// affordable: cornered kings without quiet moves, protected checkers, pinned defenders.
pub fn enumerate_corner(wk: u8, bk: u8, men: &[Man], first_sq: u8, f: &mut dyn FnMut(&Pos)) {
    if first_sq == wk || first_sq == bk || men.is_empty() || !pawn_ok(men[0], first_sq) {
        return;
    }
    let mut p = Pos::empty();
    p.board[wk as usize] = Some((Color::W, Kind::K));
    p.board[bk as usize] = Some((Color::B, Kind::K));
    p.board[first_sq as usize] = Some(men[0]);
    place_men(&mut p, men, 1, first_sq + 1, &mut |q: &Pos| {
        f(q);
        f(&q.mirror());
    });
}

fn place_men(p: &mut Pos, men: &[Man], i: usize, min_sq: u8, f: &mut dyn FnMut(&Pos)) {
    if i == men.len() {
        completions(p, f);
        return;
    }
    // identical consecutive men are placed in ascending square order (no duplicate placements)
    let start = if i > 0 && men[i] == men[i - 1] { min_sq } else { 0 };
    for s in start..64u8 {
        if p.board[s as usize].is_some() || !pawn_ok(men[i], s) {
            continue;
        }
        p.board[s as usize] = Some(men[i]);
        place_men(p, men, i + 1, s + 1, f);
        p.board[s as usize] = None;
    }
}

/// F-EP: white-to-move en-passant situations (and, through `mirror`, black-to-move ones): a black
/// pawn has just double-stepped to (f,4); one or two white capturers beside it; both kings anywhere;
/// plus one extra man of either colour anywhere. `restrict_king`: the white king only on lines
/// (rank, file, diagonal) through the capturer, the pushed pawn or the target square.
/// `restrict_bk`: the other king and the further man, too, only on lines through those squares (where a discovered
/// check can come from).
pub fn enumerate_ep(f_pushed: i32, extra: Option<Man>, restrict_king: bool, restrict_bk: bool, cb: &mut dyn FnMut(&Pos)) {
    for cap_mask in 1..4 {
        let mut base = Pos::empty();
        base.board[sq(f_pushed, 4) as usize] = Some((Color::B, Kind::P));
        let mut ok = true;
        for (bit, df) in [(1, -1), (2, 1)] {
            if cap_mask & bit != 0 {
                if !rc::on_board(f_pushed + df, 4) {
                    ok = false;
                    break;
                }
                base.board[sq(f_pushed + df, 4) as usize] = Some((Color::W, Kind::P));
            }
        }
        if !ok {
            continue;
        }
        let target = sq(f_pushed, 5);
        let origin = sq(f_pushed, 6);
        let interesting: Vec<u8> = vec![sq(f_pushed, 4), target];
        for wk in 0..64u8 {
            if base.board[wk as usize].is_some() || wk == target || wk == origin {
                continue;
            }
            let mut pts = interesting.clone();
            for df in [-1, 1] {
                if rc::on_board(f_pushed + df, 4) {
                    pts.push(sq(f_pushed + df, 4));
                }
            }
            let on_line = |k: u8| {
                pts.iter().any(|&t| {
                    let (df, dr) = (rc::file_of(t) - rc::file_of(k), rc::rank_of(t) - rc::rank_of(k));
                    df == 0 || dr == 0 || df.abs() == dr.abs()
                })
            };
            if restrict_king && !on_line(wk) {
                continue;
            }
            for bk in 0..64u8 {
                if base.board[bk as usize].is_some() || bk == wk || bk == target || bk == origin {
                    continue;
                }
                if (rc::file_of(bk) - rc::file_of(wk)).abs() <= 1 && (rc::rank_of(bk) - rc::rank_of(wk)).abs() <= 1 {
                    continue;
                }
                if restrict_bk && !on_line(bk) {
                    continue;
                }
                let mut p = base.clone();
                p.board[wk as usize] = Some((Color::W, Kind::K));
                p.board[bk as usize] = Some((Color::B, Kind::K));
                p.side = Color::W;
                p.ep = Some(target);
                let mut emit = |q: &Pos| {
                    if q.is_legal_position() {
                        cb(q);
                        cb(&q.mirror());
                    }
                };
                match extra {
                    None => emit(&p),
                    Some(m) => {
                        for s in 0..64u8 {
                            if p.board[s as usize].is_some() || s == target || s == origin || !pawn_ok(m, s) {
                                continue;
                            }
                            // (in the doubly restricted variant the further man, too, stands on such a line)
                            if restrict_bk && !on_line(s) {
                                continue;
                            }
                            p.board[s as usize] = Some(m);
                            emit(&p);
                            p.board[s as usize] = None;
                        }
                    }
                }
            }
        }
    }
}

/// F-CASTLE: white king e1 with rooks a1/h1 (subset `rooks`: 1 = h1, 2 = a1, 3 = both) and the matching
/// rights, black king anywhere, `enemy` black men anywhere, optional own blocker on the back rank;
/// white to move; plus colour-mirrored twins.
pub fn enumerate_castle(rooks: u8, enemy: &[Kind], blocker: Option<Kind>, cb: &mut dyn FnMut(&Pos)) {
    let mut base = Pos::empty();
    base.board[sq(4, 0) as usize] = Some((Color::W, Kind::K));
    if rooks & 1 != 0 {
        base.board[sq(7, 0) as usize] = Some((Color::W, Kind::R));
        base.castle[rc::WK] = true;
    }
    if rooks & 2 != 0 {
        base.board[sq(0, 0) as usize] = Some((Color::W, Kind::R));
        base.castle[rc::WQ] = true;
    }
    let blockers: Vec<Option<u8>> = match blocker {
        None => vec![None],
        Some(_) => (0..8).filter(|&f| base.at(f, 0).is_none()).map(|f| Some(sq(f, 0))).collect(),
    };
    for bl in blockers {
        let mut b2 = base.clone();
        if let (Some(s), Some(k)) = (bl, blocker) {
            b2.board[s as usize] = Some((Color::W, k));
        }
        for bk in 0..64u8 {
            if b2.board[bk as usize].is_some() {
                continue;
            }
            if (rc::file_of(bk) - 4).abs() <= 1 && rc::rank_of(bk) <= 1 {
                continue;
            }
            let mut p = b2.clone();
            p.board[bk as usize] = Some((Color::B, Kind::K));
            place_enemy(&mut p, enemy, 0, 0, cb);
        }
    }
}

fn place_enemy(p: &mut Pos, enemy: &[Kind], i: usize, min_sq: u8, cb: &mut dyn FnMut(&Pos)) {
    if i == enemy.len() {
        p.side = Color::W;
        if p.is_legal_position() {
            cb(p);
            cb(&p.mirror());
        }
        return;
    }
    let start = if i > 0 && enemy[i] == enemy[i - 1] { min_sq } else { 0 };
    for s in start..64u8 {
        if p.board[s as usize].is_some() || !pawn_ok((Color::B, enemy[i]), s) {
            continue;
        }
        p.board[s as usize] = Some((Color::B, enemy[i]));
        place_enemy(p, enemy, i + 1, s + 1, cb);
        p.board[s as usize] = None;
    }
}

/// F-DISAMB: kings on fixed far-away squares chosen per placement + n like white pieces of `kind` on
/// all square sets (ascending), optionally one black man `target` on every square; white to move.
/// Kings: white a1/h1/a8 — the first that is free and not attacked issues; black king placed on the
/// first free square not adjacent to the white king and leaving a legal position.
pub fn enumerate_disamb(kind: Kind, n: usize, target: Option<Kind>, cb: &mut dyn FnMut(&Pos)) {
    let mut p = Pos::empty();
    place_like(&mut p, kind, n, 0, target, cb);
}

fn place_like(p: &mut Pos, kind: Kind, left: usize, min_sq: u8, target: Option<Kind>, cb: &mut dyn FnMut(&Pos)) {
    if left == 0 {
        match target {
            None => with_kings(p, cb),
            Some(t) => {
                for s in 0..64u8 {
                    if p.board[s as usize].is_some() || !pawn_ok((Color::B, t), s) {
                        continue;
                    }
                    p.board[s as usize] = Some((Color::B, t));
                    with_kings(p, cb);
                    p.board[s as usize] = None;
                }
            }
        }
        return;
    }
    for s in min_sq..64u8 {
        if p.board[s as usize].is_some() {
            continue;
        }
        p.board[s as usize] = Some((Color::W, kind));
        place_like(p, kind, left - 1, s + 1, target, cb);
        p.board[s as usize] = None;
    }
}

/// Add both kings on the first workable pair of corner-ish squares; white to move.
fn with_kings(p: &mut Pos, cb: &mut dyn FnMut(&Pos)) {
    const WK_C: [u8; 6] = [0, 7, 56, 63, 1, 62];
    const BK_C: [u8; 8] = [63, 56, 7, 0, 62, 57, 6, 1];
    for &wk in &WK_C {
        if p.board[wk as usize].is_some() {
            continue;
        }
        for &bk in &BK_C {
            if bk == wk || p.board[bk as usize].is_some() {
                continue;
            }
            if (rc::file_of(bk) - rc::file_of(wk)).abs() <= 1 && (rc::rank_of(bk) - rc::rank_of(wk)).abs() <= 1 {
                continue;
            }
            p.board[wk as usize] = Some((Color::W, Kind::K));
            p.board[bk as usize] = Some((Color::B, Kind::K));
            p.side = Color::W;
            let ok = p.is_legal_position();
            if ok {
                cb(p);
            }
            p.board[wk as usize] = None;
            p.board[bk as usize] = None;
            if ok {
                return;
            }
        }
    }
}

/// Promotion family: 1–2 white pawns on the 7th rank, 0–2 black men on the 8th, kings placed by
/// `with_kings`-like search over all squares of ranks 1–6 for white and all squares for black is too
/// much; kings on fixed candidates. White to move, plus mirrored twins.
pub fn enumerate_promo(cb: &mut dyn FnMut(&Pos)) {
    let blacks = [None, Some(Kind::N), Some(Kind::R), Some(Kind::Q), Some(Kind::B)];
    for f1 in 0..8 {
        for f2 in f1..8 {
            for b1s in 0..8 {
                for b1 in blacks {
                    for b2s in (b1s + 1)..9 {
                        for b2 in blacks {
                            if b2s == 8 && b2.is_some() {
                                continue;
                            }
                            if b2s < 8 && b2.is_none() {
                                continue;
                            }
                            if b1.is_none() && b1s > 0 {
                                continue;
                            }
                            let mut p = Pos::empty();
                            p.board[sq(f1, 6) as usize] = Some((Color::W, Kind::P));
                            p.board[sq(f2, 6) as usize] = Some((Color::W, Kind::P));
                            if let Some(k) = b1 {
                                p.board[sq(b1s, 7) as usize] = Some((Color::B, k));
                            }
                            if let (Some(k), true) = (b2, b2s < 8) {
                                p.board[sq(b2s, 7) as usize] = Some((Color::B, k));
                            }
                            for wk in [sq(0, 0), sq(4, 5), sq(7, 4)] {
                                for bk in [sq(7, 0), sq(4, 7), sq(0, 7), sq(2, 5)] {
                                    if p.board[wk as usize].is_some() || p.board[bk as usize].is_some() || wk == bk {
                                        continue;
                                    }
                                    if (rc::file_of(bk) - rc::file_of(wk)).abs() <= 1 && (rc::rank_of(bk) - rc::rank_of(wk)).abs() <= 1 {
                                        continue;
                                    }
                                    let mut q = p.clone();
                                    q.board[wk as usize] = Some((Color::W, Kind::K));
                                    q.board[bk as usize] = Some((Color::B, Kind::K));
                                    q.side = Color::W;
                                    if q.is_legal_position() {
                                        cb(&q);
                                        cb(&q.mirror());
                                    }
                                }
                            }
                        }
                    }
                }
            }
        }
    }
}

/// F-HEAVY: material far outside normal play. Kings in opposite corners behind pawn shields; per side
/// (q, r, b, n) counts up to the bounds, filled rank by rank into the side's own half by one of the
/// filling orders. Both sides to move.
/// F-ABSURD: one side has far more heavy men than any game can produce (20 .. 56 queens or rooks), the other only its
/// shielded king; the poor side is to move. The FEN reader accepts such boards, so the incrementally kept state has
/// to survive them (sums beyond 16 bits).
pub fn enumerate_absurd(cb: &mut dyn FnMut(&Pos)) {
    for kind in [Kind::Q, Kind::R] {
        for n in [20usize, 26, 28, 30, 31, 32, 33, 34, 36, 40, 48, 56] {
            let mut p = Pos::empty();
            p.board[sq(0, 0) as usize] = Some((Color::W, Kind::K));
            p.board[sq(0, 1) as usize] = Some((Color::W, Kind::P));
            p.board[sq(1, 1) as usize] = Some((Color::W, Kind::P));
            p.board[sq(1, 0) as usize] = Some((Color::W, Kind::N));
            p.board[sq(7, 7) as usize] = Some((Color::B, Kind::K));
            p.board[sq(7, 6) as usize] = Some((Color::B, Kind::P));
            p.board[sq(6, 6) as usize] = Some((Color::B, Kind::P));
            p.board[sq(6, 7) as usize] = Some((Color::B, Kind::N));
            let mut left = n;
            'fill: for r in 0..7 {
                for f in 0..8 {
                    let s = sq(f, r);
                    // h6 / g6 / f6 stay free so that the poor side has pawn and knight moves
                    if p.board[s as usize].is_none() && !(r == 5 && f >= 5) {
                        if left == 0 {
                            break 'fill;
                        }
                        p.board[s as usize] = Some((Color::W, kind));
                        left -= 1;
                    }
                }
            }
            p.side = Color::B;
            if p.is_legal_position() && !p.legal_moves().is_empty() {
                cb(&p);
                cb(&p.mirror());
            }
        }
    }
}

pub fn enumerate_heavy(max_q: usize, max_r: usize, max_bn: usize, cb: &mut dyn FnMut(&Pos)) {
    let counts: Vec<(usize, usize, usize, usize)> = {
        let mut v = vec![];
        for q in [0, 1, 2, 5, max_q] {
            for r in [0, 2, max_r] {
                for b in [0, 2, max_bn] {
                    for n in [0, 2, max_bn] {
                        if q <= max_q && r <= max_r && b <= max_bn && n <= max_bn && q + r + b + n <= 27 {
                            v.push((q, r, b, n));
                        }
                    }
                }
            }
        }
        v.sort();
        v.dedup();
        v
    };
    for order in 0..3 {
        for &(wq, wr, wb, wn) in &counts {
            for &(bq, br, bb, bn) in &counts {
                let mut p = Pos::empty();
                // white king a1 shielded by pawns a2 b2 and a rook-proof knight on b1; black king h8 likewise
                p.board[sq(0, 0) as usize] = Some((Color::W, Kind::K));
                p.board[sq(0, 1) as usize] = Some((Color::W, Kind::P));
                p.board[sq(1, 1) as usize] = Some((Color::W, Kind::P));
                p.board[sq(1, 0) as usize] = Some((Color::W, Kind::N));
                p.board[sq(7, 7) as usize] = Some((Color::B, Kind::K));
                p.board[sq(7, 6) as usize] = Some((Color::B, Kind::P));
                p.board[sq(6, 6) as usize] = Some((Color::B, Kind::P));
                p.board[sq(6, 7) as usize] = Some((Color::B, Kind::N));
                let wmen: Vec<Kind> = expand(wq, wr, wb, wn, order);
                let bmen: Vec<Kind> = expand(bq, br, bb, bn, order);
                // white fills ranks 1..4 from the c-file on, black ranks 8..5 mirrored
                let mut wsq: Vec<u8> = vec![];
                let mut bsq: Vec<u8> = vec![];
                for r in 0..4 {
                    for f in 0..8 {
                        let s = sq(f, r);
                        if p.board[s as usize].is_none() {
                            wsq.push(s);
                        }
                        let t = sq(7 - f, 7 - r);
                        if p.board[t as usize].is_none() {
                            bsq.push(t);
                        }
                    }
                }
                if wmen.len() > wsq.len() || bmen.len() > bsq.len() {
                    continue;
                }
                for (i, k) in wmen.iter().enumerate() {
                    p.board[wsq[i] as usize] = Some((Color::W, *k));
                }
                for (i, k) in bmen.iter().enumerate() {
                    p.board[bsq[i] as usize] = Some((Color::B, *k));
                }
                for side in [Color::W, Color::B] {
                    p.side = side;
                    if p.is_legal_position() {
                        cb(&p);
                    }
                }
            }
        }
    }
}

fn expand(q: usize, r: usize, b: usize, n: usize, order: usize) -> Vec<Kind> {
    let groups = [(Kind::Q, q), (Kind::R, r), (Kind::B, b), (Kind::N, n)];
    let mut v = vec![];
    match order {
        0 => {
            for (k, c) in groups {
                v.extend(std::iter::repeat(k).take(c));
            }
        }
        1 => {
            for (k, c) in groups.iter().rev() {
                v.extend(std::iter::repeat(*k).take(*c));
            }
        }
        _ => {
            // interleaved
            let mut left = [q, r, b, n];
            loop {
                let mut any = false;
                for (i, (k, _)) in groups.iter().enumerate() {
                    if left[i] > 0 {
                        v.push(*k);
                        left[i] -= 1;
                        any = true;
                    }
                }
                if !any {
                    break;
                }
            }
        }
    }
    v
}
