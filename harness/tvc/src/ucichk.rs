//! C12 (determinism, ucinewgame), C13 (advertised options), C17 (position command) through
//! search sessions and the engine's real command loop in process.

#![allow(dead_code)]

use crate::chess::moves::Move;
use crate::chess::player::Player;
use crate::chess::square::Square;
use crate::engine::search::PersistentState;
use crate::monitors as mo;
use crate::refchess::{Pos, RMove};
use crate::report::Run;
use crate::searchchk::{Session, Step};
use crate::session::*;
use crate::ucidrv::{strip_info, Drv, Wait};
use crate::util::{catch, par_for, J};
use crate::verif_hooks::Clock;
use std::sync::atomic::{AtomicU64, Ordering};
use std::time::Duration;

const WAIT: Duration = Duration::from_secs(120);

// ------------------------------------------------------------------------------------------------ C12

type Trace = Vec<(String, Vec<InfoRec>)>;

/// Execute a session under a clock script, return the trace and the table statistics after each step.
fn exec_trace(sess: &Session, clock: Option<Clock>) -> Result<(Trace, Vec<(u8, usize, usize)>), String> {
    let mut ps = catch(|| PersistentState::new(sess.hash_mb))?;
    ps.tt.generation = sess.start_gen;
    let mut tr = vec![];
    let mut stats = vec![];
    for st in &sess.steps {
        match st {
            Step::NewGame => catch(|| ps.reset())?,
            Step::SetHash(mb) => catch(|| ps.tt.resize(*mb))?,
            Step::Search(gs, spec, _) => {
                let (g, _) = gs.build()?;
                let env = match &clock {
                    None => Env::Default,
                    Some(c) => Env::Clock(c.clone()),
                };
                let o = run_search(&mut ps, &g, spec, &env, DEFAULT_NODE_BUDGET);
                let b = o.best.map(|m| format!("{m:?}"))?;
                tr.push((b, o.infos));
            }
        }
        stats.push((ps.tt.generation, crate::tt_occ!(ps.tt), (ps.tt.occupancy() as usize)));
    }
    Ok((tr, stats))
}

fn fresh_like(ps_hash: usize) -> (u8, usize, usize, Vec<i32>) {
    let ps = PersistentState::new(ps_hash);
    (ps.tt.generation, crate::tt_occ!(ps.tt), (ps.tt.occupancy() as usize), history_scores(&ps))
}

fn history_scores(ps: &PersistentState) -> Vec<i32> {
    let mut v = Vec::with_capacity(2 * 64 * 64);
    for pl in [Player::White, Player::Black] {
        for a in 0..64u8 {
            for b in 0..64u8 {
                if a != b {
                    v.push(ps.history_table.get(pl, Move::quiet(Square::from_index(a), Square::from_index(b))));
                }
            }
        }
    }
    v
}

fn diff_traces(a: &Trace, b: &Trace) -> Option<String> {
    if a.len() != b.len() {
        return Some(format!("{} searches vs {}", a.len(), b.len()));
    }
    for (i, (x, y)) in a.iter().zip(b.iter()).enumerate() {
        if x.0 != y.0 {
            return Some(format!("search {}: best move {} vs {}", i + 1, x.0, y.0));
        }
        if x.1.len() != y.1.len() {
            return Some(format!("search {}: {} info lines vs {}", i + 1, x.1.len(), y.1.len()));
        }
        for (l, m) in x.1.iter().zip(y.1.iter()) {
            if l != m {
                return Some(format!("search {}: info [{}] vs [{}]", i + 1, l.text(), m.text()));
            }
        }
    }
    None
}

pub fn c12_letters(quick: bool) -> Vec<Step> {
    let fens: Vec<&str> = if quick {
        vec!["rnbqkbnr/pppppppp/8/8/8/8/PPPPPPPP/RNBQKBNR w KQkq - 0 1", "r3k2r/p1ppqpb1/bn2pnp1/3PN3/1p2P3/2N2Q1p/PPPBBPPP/R3K2R w KQkq - 0 1", "8/6k1/8/2R5/8/1K6/3Q1p2/8 w - - 1 25", "8/2p5/3p4/KP5r/1R3p1k/8/4P1P1/8 w - - 0 1", "rnbqkbnr/pppp1ppp/8/4p3/4P3/8/PPPP1PPP/RNBQKBNR w KQkq - 0 2"]
    } else {
        vec![
            "rnbqkbnr/pppppppp/8/8/8/8/PPPPPPPP/RNBQKBNR w KQkq - 0 1",
            "r3k2r/p1ppqpb1/bn2pnp1/3PN3/1p2P3/2N2Q1p/PPPBBPPP/R3K2R w KQkq - 0 1",
            "8/6k1/8/2R5/8/1K6/3Q1p2/8 w - - 1 25",
            "8/2p5/3p4/KP5r/1R3p1k/8/4P1P1/8 w - - 0 1",
            "rnbqkbnr/pppp1ppp/8/4p3/4P3/8/PPPP1PPP/RNBQKBNR w KQkq - 0 2",
            "r4rk1/1pp1qppp/p1np1n2/2b1p1B1/2B1P1b1/P1NP1N2/1PP1QPPP/R4RK1 w - - 0 10",
            "8/8/8/4k3/8/8/8/3QK3 w - - 0 1",
            "rnbq1k1r/pp1Pbppp/2p5/8/2B5/8/PPP1NnPP/RNBQK2R w KQ - 1 8",
        ]
    };
    let depths: Vec<u8> = if quick { vec![2, 5] } else { vec![2, 4, 6] };
    let mut v = vec![];
    for f in fens {
        for d in &depths {
            v.push(Step::Search(GameSpec::fen(f), Spec::depth(*d), Env::Default));
        }
    }
    v.push(Step::NewGame);
    v.push(Step::SetHash(2));
    // the smallest advertised table (a single slot when the minimum is 0)
    let min = crate::checks::advertised_hash_min();
    if min != 2 {
        v.push(Step::SetHash(min));
    }
    v
}

fn sessions_upto(letters: &[Step], len: usize) -> Vec<Vec<Step>> {
    let mut out: Vec<Vec<Step>> = vec![vec![]];
    let mut last: Vec<Vec<Step>> = vec![vec![]];
    for _ in 0..len {
        let mut next = vec![];
        for s in &last {
            for l in letters {
                let mut t = s.clone();
                t.push(l.clone());
                next.push(t);
            }
        }
        out.extend(next.iter().cloned());
        last = next;
    }
    out.retain(|s| s.iter().any(|x| matches!(x, Step::Search(..))));
    out
}

pub fn c12(run: &'static Run) -> (u64, u64) {
    let quick = run.quick();
    let letters = c12_letters(quick);
    let n_sess = AtomicU64::new(0);
    let n_search = AtomicU64::new(0);
    // (a) same session, independently built states, four clock behaviours
    let all = sessions_upto(&letters, 3);
    par_for(all.len(), |i| {
        let sess = Session { hash_mb: 1, start_gen: 0, steps: all[i].clone() };
        let runs: Vec<(&str, Option<Clock>)> = vec![("real clock", None), ("frozen clock", Some(Clock::Frozen)), ("+1 ms per clock read", Some(Clock::StepPerRead(1_000_000))), ("+1 h per clock read", Some(Clock::StepPerRead(3_600_000_000_000)))];
        let mut first: Option<(Trace, Vec<(u8, usize, usize)>)> = None;
        for (name, c) in runs {
            n_search.fetch_add(sess.steps.iter().filter(|s| matches!(s, Step::Search(..))).count() as u64, Ordering::Relaxed);
            match exec_trace(&sess, c) {
                Err(e) => {
                    run.violation("search-panic", format!("search-panic|{}|{name}", sess.key(usize::MAX)), sess.json(usize::MAX), format!("{name}: {e}"));
                    return;
                }
                Ok(t) => match &first {
                    None => first = Some(t),
                    Some(f) => {
                        if let Some(d) = diff_traces(&f.0, &t.0) {
                            run.violation("search-not-deterministic", format!("search-not-deterministic|{}|{name}", sess.key(usize::MAX)), sess.json(usize::MAX), format!("same session, {name} vs real clock: {d}"));
                        } else if f.1 != t.1 {
                            run.violation("search-not-deterministic", format!("table-stats|{}|{name}", sess.key(usize::MAX)), sess.json(usize::MAX), format!("same session, {name}: table statistics differ {:?} vs {:?}", f.1, t.1));
                        }
                    }
                },
            }
        }
        if let Some((t, _)) = &first {
            run.distinct_outcome(t.iter().map(|x| format!("{}/{}", x.0, x.1.last().map(|i| i.nodes).unwrap_or(0))).collect::<Vec<_>>().join(","));
        }
        n_sess.fetch_add(1, Ordering::Relaxed);
    });
    let a = n_sess.load(Ordering::Relaxed);
    run.family("SAME-STATE", &format!("all sessions of length <= 3 over {} letters ({} searches (position x depth), ucinewgame, set hash 2, set hash to the advertised minimum) containing a search: executed on 4 independently built states under a real, a frozen, a +1 ms/read and a +1 h/read clock, workers running concurrently", letters.len(), letters.iter().filter(|s| matches!(s, Step::Search(..))).count()), a, n_search.load(Ordering::Relaxed), true, "traces (best move, every info line without time/nps) and table statistics identical");
    // (b) <H, ucinewgame, P> vs <P> on a fresh state
    let hs = sessions_upto(&letters, 2);
    let probe_letters: Vec<Step> = letters.iter().filter(|s| matches!(s, Step::Search(..))).cloned().collect();
    let ps_ = sessions_upto(&probe_letters, 2);
    // the history may have been long: the table generation before H is 0, 253, 254 or 255 (what 0 / 253 / 254 /
    // 255 earlier searches leave behind), so that a counter wrap can fall before or after the ucinewgame
    let start_gens: [u8; 4] = [0, 253, 254, 255];
    let n_b = AtomicU64::new(0);
    par_for(hs.len(), |i| {
        let h = &hs[i];
        // hash size in force after H
        let mut size = 1usize;
        for s in h {
            if let Step::SetHash(mb) = s {
                size = *mb;
            }
        }
        // statistics right after ucinewgame
        let r = catch(|| {
            let mut ps = PersistentState::new(1);
            ps.tt.generation = 0;
            for st in h {
                match st {
                    Step::NewGame => ps.reset(),
                    Step::SetHash(mb) => ps.tt.resize(*mb),
                    Step::Search(gs, spec, _) => {
                        let (g, _) = gs.build().unwrap();
                        let _ = run_search(&mut ps, &g, spec, &Env::Default, DEFAULT_NODE_BUDGET);
                    }
                }
            }
            ps.reset();
            (ps.tt.generation, crate::tt_occ!(ps.tt), (ps.tt.occupancy() as usize), history_scores(&ps))
        });
        let hsess = Session { hash_mb: 1, start_gen: 0, steps: { let mut v = h.clone(); v.push(Step::NewGame); v } };
        match r {
            Err(e) => run.violation("search-panic", format!("search-panic|{}", hsess.key(usize::MAX)), hsess.json(usize::MAX), e),
            Ok(after) => {
                // only what a user can observe directly is compared here: the fill indicator (hashfull);
                // everything else (generation counter, history scores) is judged through the behaviour of the
                // probe searches below, so that an implementation that resets lazily is not flagged
                let fresh = fresh_like(size);
                if after.2 != fresh.2 {
                    run.violation("ucinewgame-not-fresh", format!("ucinewgame-stats|{}", hsess.key(usize::MAX)), tagged(hsess.json(usize::MAX), "fill-after-newgame", size), format!("after ucinewgame the fill indicator (hashfull) is {}, a fresh engine shows {}", after.2, fresh.2));
                }
            }
        }
        for (pi, p) in ps_.iter().enumerate() {
            let start_gen = start_gens[(i + pi) % 4];
            let mut steps = h.clone();
            steps.push(Step::NewGame);
            let cut = steps.iter().filter(|s| matches!(s, Step::Search(..))).count();
            steps.extend(p.iter().cloned());
            let full = Session { hash_mb: 1, start_gen, steps };
            let fresh = Session { hash_mb: size, start_gen: 0, steps: p.clone() };
            n_b.fetch_add(1, Ordering::Relaxed);
            match (exec_trace(&full, None), exec_trace(&fresh, None)) {
                (Ok((tf, _)), Ok((tn, _))) => {
                    let suffix: Trace = tf[cut..].to_vec();
                    if let Some(d) = diff_traces(&suffix, &tn) {
                        run.violation("ucinewgame-not-fresh", format!("ucinewgame-not-fresh|{}", full.key(usize::MAX)), tagged(full.json(usize::MAX), "fresh-differential", size), format!("searches after ucinewgame differ from the same searches on a freshly started engine with Hash {size}: {d}"));
                    }
                }
                (Err(e), _) | (_, Err(e)) => run.violation("search-panic", format!("search-panic|{}", full.key(usize::MAX)), full.json(usize::MAX), e),
            }
        }
    });
    let b = n_b.load(Ordering::Relaxed);
    run.family("NEWGAME-VS-FRESH", &format!("every history H of length <= 2 ({}), then ucinewgame, then every probe session of length <= 2 ({}), the table generation before H cycling through 0/253/254/255: compared with the probe session on a fresh state of the same hash size; fill indicator right after ucinewgame compared with a fresh state", hs.len(), ps_.len()), b, b * 2, true, "differential oracle");
    // (c) through the real command loop
    let c = c12_uci(run);
    (a + b + c, n_search.load(Ordering::Relaxed) + b * 2 + c)
}

fn tagged(mut j: J, oracle: &str, fresh_hash_mb: usize) -> J {
    if let J::Obj(kv) = &mut j {
        kv.push(("oracle".to_string(), J::s(oracle)));
        kv.push(("fresh_hash_mb".to_string(), J::i(fresh_hash_mb as i64)));
    }
    j
}

/// Replay of a C12 session case with its differential oracle: what follows the last ucinewgame is compared with the
/// same searches on a fresh state.
pub fn replay_c12_session(run: &Run, case: &J) -> bool {
    let Some(oracle) = case.get("oracle").and_then(|x| x.as_str()) else { return false };
    let size = case.get("fresh_hash_mb").and_then(|x| x.as_i64()).unwrap_or(1) as usize;
    let full = Session::from_json(case);
    let Some(cut_at) = full.steps.iter().rposition(|s| matches!(s, Step::NewGame)) else { return false };
    match oracle {
        "fresh-differential" => {
            let probe: Vec<Step> = full.steps[cut_at + 1..].to_vec();
            let cut = full.steps[..cut_at].iter().filter(|s| matches!(s, Step::Search(..))).count();
            let fresh = Session { hash_mb: size, start_gen: 0, steps: probe };
            match (exec_trace(&full, None), exec_trace(&fresh, None)) {
                (Ok((tf, _)), Ok((tn, _))) => {
                    let suffix: Trace = tf[cut..].to_vec();
                    match diff_traces(&suffix, &tn) {
                        Some(d) => {
                            println!("after ucinewgame vs fresh engine (Hash {size}): {d}");
                            run.violation("ucinewgame-not-fresh", String::new(), J::Null, d);
                        }
                        None => println!("the searches after ucinewgame equal those of a fresh engine (Hash {size})"),
                    }
                }
                (Err(e), _) | (_, Err(e)) => run.violation("search-panic", String::new(), J::Null, e),
            }
        }
        _ => {
            let r = catch(|| {
                let mut ps = PersistentState::new(1);
                for st in &full.steps {
                    match st {
                        Step::NewGame => ps.reset(),
                        Step::SetHash(mb) => ps.tt.resize(*mb),
                        Step::Search(gs, spec, _) => {
                            let (g, _) = gs.build().unwrap();
                            let _ = run_search(&mut ps, &g, spec, &Env::Default, DEFAULT_NODE_BUDGET);
                        }
                    }
                }
                ps.tt.occupancy() as usize
            });
            println!("fill indicator after the history: {r:?} (a fresh engine shows 0)");
            if r != Ok(0) {
                run.violation("ucinewgame-not-fresh", String::new(), J::Null, format!("fill indicator {r:?} after ucinewgame"));
            }
        }
    }
    true
}

/// C12 under schedules: tvc-sched explores every interleaving of the command loop and the search thread for
/// scripts in which ucinewgame follows a search, and asserts that the tables are empty when ucinewgame returns.
pub fn newgame_under_schedules(run: &Run) -> (u64, u64) {
    let a = under_schedules(run, "newgame");
    let b = under_schedules(run, "determinism");
    (a.0 + b.0, a.1 + b.1)
}

/// C13 under schedules: a setoption Hash with a new value, sent while no bestmove is outstanding, must take effect
/// (the table is replaced) under every interleaving with the just-finished search thread.
pub fn setoption_under_schedules(run: &Run) -> (u64, u64) {
    under_schedules(run, "setoption")
}

fn under_schedules(run: &Run, mode: &str) -> (u64, u64) {
    let Ok(bin) = std::env::var("VERIF_SCHED_BIN") else {
        run.machinery_error("VERIF_SCHED_BIN is not set (./check builds tvc-sched for C12)".to_string());
        return (0, 0);
    };
    let out = match std::process::Command::new(&bin).arg(mode).arg(&run.tier).output() {
        Ok(o) => String::from_utf8_lossy(&o.stdout).to_string(),
        Err(e) => {
            run.machinery_error(format!("cannot run {bin}: {e}"));
            return (0, 0);
        }
    };
    let Some(line) = out.lines().find(|l| l.starts_with("NEWGAME-RESULT ")) else {
        run.machinery_error(format!("tvc-sched {mode} produced no result"));
        return (0, 0);
    };
    let j = match J::parse(line.trim_start_matches("NEWGAME-RESULT ")) {
        Ok(j) => j,
        Err(e) => {
            run.machinery_error(format!("tvc-sched newgame result unreadable: {e}"));
            return (0, 0);
        }
    };
    let gi = |k: &str| j.get(k).and_then(|x| x.as_i64()).unwrap_or(0) as u64;
    for f in j.get("failures").and_then(|x| x.as_arr()).cloned().unwrap_or_default() {
        let script = f.get("script_text").and_then(|x| x.as_str()).unwrap_or("").to_string();
        let msg = f.get("message").and_then(|x| x.as_str()).unwrap_or("").to_string();
        if !matches!(f.get("replays_deterministically"), Some(J::Bool(true))) {
            if mode == "determinism" {
                // same script, same schedule, different lines: what the searches print depends on something that is
                // neither the commands nor the interleaving (the wall clock, for instance)
                run.violation("search-not-deterministic", format!("search-not-deterministic-under-one-schedule|{}", f.get("script").and_then(|x| x.as_str()).unwrap_or("")), f.clone(), format!("[{script}]: one and the same schedule printed different search lines when it was run again: {msg}"));
            } else {
                run.machinery_error(format!("schedule for [{script}] does not replay deterministically"));
            }
            continue;
        }
        let kind = match mode {
            "newgame" => "ucinewgame-not-fresh-under-schedule",
            "determinism" => "search-depends-on-the-schedule",
            _ => "setoption-not-applied-under-schedule",
        };
        run.violation(kind, format!("{kind}|{}", f.get("script").and_then(|x| x.as_str()).unwrap_or("")), f.clone(), format!("[{script}] under some interleaving of the command loop and the search thread: {msg}"));
    }
    if mode == "determinism" {
        run.family("E6-DETERMINISM", &format!("every well-formed script of length <= {} with at least two finite searches on the start position, every schedule with <= {} preemptions (shuttle): the info and bestmove lines equal those of the schedule without preemptions", gi("max_length"), gi("preemption_bound")), gi("executions"), gi("steps"), true, &format!("{} scripts", gi("scripts")));
    } else if mode == "newgame" {
        run.family("E6-NEWGAME", &format!("every well-formed script of length <= {} in which a ucinewgame follows a search, every schedule with <= {} preemptions (shuttle): when ucinewgame returns the shared tables are empty", gi("max_length"), gi("preemption_bound")), gi("executions"), gi("steps"), true, &format!("{} scripts", gi("scripts")));
    } else {
        run.family("E6-SETOPTION", &format!("every well-formed script of length <= {} in which a setoption Hash (always a new value) follows a search, every schedule with <= {} preemptions (shuttle): when setoption returns the table has been replaced", gi("max_length"), gi("preemption_bound")), gi("executions"), gi("steps"), true, &format!("{} scripts", gi("scripts")));
    }
    (gi("executions"), gi("steps"))
}

fn uci_go_trace(d: &mut Drv, run: &Run, script_key: &str, case: &J) -> Option<Vec<String>> {
    match d.wait_search(WAIT) {
        Wait::Finished => {}
        w => {
            run.violation("uci-search-did-not-finish", format!("uci-search|{script_key}"), case.clone(), format!("search thread: {w:?} after [{}]", d.sent.join(" ; ")));
            return None;
        }
    }
    Some(d.take().iter().filter(|l| l.starts_with("info") || l.starts_with("bestmove")).map(|l| strip_info(l)).collect())
}

fn run_script(run: &'static Run, lines: &[String], hash: usize) -> Option<Vec<Vec<String>>> {
    let l2 = lines.to_vec();
    match crate::util::with_timeout(90, move || run_script_inner(run, &l2, hash)) {
        Some(r) => r,
        None => {
            run.violation("uci-command-blocks", format!("uci-command-blocks|{}", lines.join(" ; ")), J::obj(vec![("kind", J::s("uci-script")), ("hash_mb", J::i(hash as i64)), ("lines", J::Arr(lines.iter().map(|l| J::s(l.clone())).collect()))]), format!("the command loop did not come back within 90 s during [{}]", lines.join(" ; ")));
            None
        }
    }
}

fn run_script_inner(run: &Run, lines: &[String], hash: usize) -> Option<Vec<Vec<String>>> {
    let case = J::obj(vec![("kind", J::s("uci-script")), ("hash_mb", J::i(hash as i64)), ("lines", J::Arr(lines.iter().map(|l| J::s(l.clone())).collect()))]);
    let key = lines.join(" ; ");
    let mut d = match Drv::new(hash) {
        Ok(d) => d,
        Err(e) => {
            run.violation("uci-panic", format!("uci-new|{hash}"), case, e);
            return None;
        }
    };
    let mut traces = vec![];
    for l in lines {
        if let Err(e) = d.send(l) {
            run.violation("uci-command-failed", format!("uci-command|{key}|{l}"), case.clone(), format!("`{l}` after [{}]: {e}", d.sent.join(" ; ")));
            return None;
        }
        if l.starts_with("go") {
            traces.push(uci_go_trace(&mut d, run, &key, &case)?);
        }
    }
    Some(traces)
}

fn c12_uci(run: &'static Run) -> u64 {
    let positions = ["position startpos moves e2e4 e7e5 g1f3", "position fen r3k2r/p1ppqpb1/bn2pnp1/3PN3/1p2P3/2N2Q1p/PPPBBPPP/R3K2R w KQkq - 0 1", "position fen 8/6k1/8/2R5/8/1K6/3Q1p2/8 w - - 1 25"];
    let mut scripts: Vec<(Vec<String>, Vec<String>, usize)> = vec![]; // (script with history, fresh script, fresh hash)
    for p in positions {
        for q in ["", "position startpos", "position startpos moves d2d4", positions[1]] {
            for hashline in ["", "setoption name Hash value 2"] {
                for d in [3, 5] {
                    let mut a: Vec<String> = vec!["setoption name Hash value 1".into(), p.into(), format!("go depth {d}")];
                    if !hashline.is_empty() {
                        a.push(hashline.into());
                    }
                    a.push("ucinewgame".into());
                    let mut f: Vec<String> = vec![];
                    if !q.is_empty() {
                        a.push(q.into());
                        f.push(q.into());
                    }
                    a.push(format!("go depth {d}"));
                    f.push(format!("go depth {d}"));
                    scripts.push((a, f, if hashline.is_empty() { 1 } else { 2 }));
                }
            }
        }
    }
    let n = AtomicU64::new(0);
    par_for(scripts.len(), |i| {
        let (a, f, h) = &scripts[i];
        let ta = run_script(run, a, 16);
        let mut fl = vec![format!("setoption name Hash value {h}")];
        fl.extend(f.iter().cloned());
        let tf = run_script(run, &fl, 16);
        n.fetch_add(1, Ordering::Relaxed);
        if let (Some(ta), Some(tf)) = (ta, tf) {
            // twice the same script: identical
            if let Some(ta2) = run_script(run, a, 16) {
                if ta2 != ta {
                    run.violation("search-not-deterministic", format!("uci-twice|{}", a.join(" ; ")), J::obj(vec![("kind", J::s("uci-script")), ("hash_mb", J::i(16)), ("lines", J::Arr(a.iter().map(|l| J::s(l.clone())).collect()))]), "the same command script gives different info/bestmove lines when run twice".into());
                }
            }
            if ta.last() != tf.last() {
                run.violation(
                    "ucinewgame-not-fresh",
                    format!("uci-newgame|{}", a.join(" ; ")),
                    J::obj(vec![("kind", J::s("uci-newgame")), ("lines", J::Arr(a.iter().map(|l| J::s(l.clone())).collect())), ("fresh_lines", J::Arr(fl.iter().map(|l| J::s(l.clone())).collect()))]),
                    format!("last `go` of [{}] answers {:?}; a freshly started engine given [{}] answers {:?}", a.join(" ; "), ta.last().map(|v| v.last().cloned()), fl.join(" ; "), tf.last().map(|v| v.last().cloned())),
                );
            }
        }
    });
    let c = n.load(Ordering::Relaxed);
    run.family("UCI-NEWGAME", "3 earlier positions x {no position, startpos, startpos d2d4, kiwipete after ucinewgame} x {Hash unchanged, Hash 2} x depth {3,5} through the real command loop; each script twice; last go compared with a freshly constructed Uci", c, c * 3, true, "");
    c
}

pub fn replay_uci(run: &'static Run, case: &J) {
    let lines: Vec<String> = case.get("lines").and_then(|x| x.as_arr()).map(|a| a.iter().filter_map(|x| x.as_str().map(|s| s.to_string())).collect()).unwrap_or_default();
    let hash = case.get("hash_mb").and_then(|x| x.as_i64()).unwrap_or(16) as usize;
    let t = run_script(run, &lines, hash);
    println!("script [{}] -> {:?}", lines.join(" ; "), t);
    if let Some(fl) = case.get("fresh_lines").and_then(|x| x.as_arr()) {
        let fl: Vec<String> = fl.iter().filter_map(|x| x.as_str().map(|s| s.to_string())).collect();
        let f = run_script(run, &fl, hash);
        println!("fresh  [{}] -> {:?}", fl.join(" ; "), f);
        if let (Some(t), Some(f)) = (t, f) {
            if t.last() != f.last() {
                run.violation("ucinewgame-not-fresh", String::new(), J::Null, "last go differs from a fresh engine".into());
            }
        }
    }
}

// ------------------------------------------------------------------------------------------------ C08 (text)

/// C08 on what the engine actually prints: `info ... pv ...` lines of the real command loop, parsed and
/// replayed on the reference model (legal line, depth sequence, mate length).
pub fn c08_text(run: &'static Run) -> (u64, u64) {
    let roots = crate::searchchk::tactical_roots();
    let maxd: u32 = if run.quick() { 5 } else { 7 };
    let n = AtomicU64::new(0);
    let lines_checked = AtomicU64::new(0);
    par_for(roots.len(), |i| {
        let g = roots[i].clone();
        let (_, root) = g.build().unwrap();
        let mut pos_line = format!("position fen {}", g.fen);
        if !g.moves.is_empty() {
            pos_line.push_str(" moves ");
            pos_line.push_str(&g.moves.join(" "));
        }
        // the depth limit phrased in different but equivalent ways (other limits that cannot bind, either field order)
        let phrasings = [format!("go depth {maxd}"), format!("go depth {maxd} infinite"), format!("go infinite depth {maxd}"), format!("go depth {maxd} movetime 100000000"), format!("go wtime 100000000 btime 100000000 depth {maxd}"), format!("go depth {maxd} nodes 100000000"), "go depth 0".to_string()];
        let go_line = phrasings[i % phrasings.len()].clone();
        let maxd: u32 = if go_line == "go depth 0" { 0 } else { maxd };
        let script = vec![pos_line.clone(), go_line];
        let case = J::obj(vec![("kind", J::s("uci-script")), ("hash_mb", J::i(1)), ("lines", J::Arr(script.iter().map(|l| J::s(l.clone())).collect()))]);
        let work = {
            let script = script.clone();
            move || -> Option<Vec<String>> {
                let mut d = Drv::new(1).ok()?;
                for l in &script {
                    d.send(l).ok()?;
                }
                if d.wait_search(Duration::from_secs(40)) != Wait::Finished {
                    return None;
                }
                Some(d.take())
            }
        };
        n.fetch_add(1, Ordering::Relaxed);
        let Some(out) = crate::util::with_timeout(150, work).flatten() else {
            run.violation("uci-search-did-not-finish", format!("uci-text|{}", script.join(" ; ")), case, format!("[{}]: the search did not end at its depth limit (no bestmove within the time-out)", script.join(" ; ")));
            return;
        };
        let mut expect = 1u32;
        for l in out.iter().filter(|l| l.starts_with("info ")) {
            lines_checked.fetch_add(1, Ordering::Relaxed);
            let w: Vec<&str> = l.split_whitespace().collect();
            let field = |k: &str| w.iter().position(|x| *x == k).and_then(|i| w.get(i + 1)).copied();
            let depth: u32 = field("depth").and_then(|x| x.parse().ok()).unwrap_or(0);
            let vio = |kind: &str, detail: String| run.violation(kind, format!("{kind}|{}|depth {depth}", script.join(" ; ")), case.clone(), format!("{}: {detail} (line: {l})", g.key()));
            if depth != expect || depth > maxd {
                vio("info-depth-sequence", format!("depth {depth} reported where {expect} was expected (limit {maxd})"));
            }
            expect = depth + 1;
            let pv: Vec<&str> = match w.iter().position(|x| *x == "pv") {
                Some(i) => w[i + 1..].to_vec(),
                None => vec![],
            };
            if pv.is_empty() {
                vio("pv-empty", "no principal variation in the info line".into());
                continue;
            }
            let mut p = root.clone();
            let mut ok = true;
            for (j, m) in pv.iter().enumerate() {
                match p.legal_moves().into_iter().find(|x| x.uci() == *m) {
                    Some(rm) => p = p.apply(&rm),
                    None => {
                        vio("pv-illegal-move", format!("move {} ({m}) of the printed line is not legal in {}", j + 1, p.to_fen()));
                        ok = false;
                        break;
                    }
                }
            }
            if !ok {
                continue;
            }
            if let Some(i) = w.iter().position(|x| *x == "mate") {
                let nm: i64 = w.get(i + 1).and_then(|x| x.parse().ok()).unwrap_or(0);
                let want = if nm > 0 { 2 * nm - 1 } else { -2 * nm } as usize;
                let mated_side_ok = if nm > 0 { p.side != root.side } else { p.side == root.side };
                if nm == 0 || pv.len() != want || !p.is_checkmate() || !mated_side_ok {
                    vio("mate-announcement", format!("mate {nm} printed with a line of {} plies (expected {want}) ending in {} (checkmate: {})", pv.len(), p.to_fen(), p.is_checkmate()));
                }
            }
        }
    });
    let a = n.load(Ordering::Relaxed);
    let b = lines_checked.load(Ordering::Relaxed);
    run.family("UCI-TEXT", &format!("{} roots x go depth {maxd}, the limit phrased in 7 equivalent ways in turn (with infinite / movetime / clocks / nodes that cannot bind, either order; depth 0), through the real command loop: every printed info line parsed and replayed on the reference model", roots.len()), a, b, true, "the text a GUI receives, not the in-process SearchInfo");
    run.count("printed_info_lines", b);
    (a, b)
}

// ------------------------------------------------------------------------------------------------ C13

#[derive(Clone, Debug)]
pub struct SpinOption {
    pub name: String,
    pub min: usize,
    pub max: usize,
}

pub fn spin_options() -> Vec<SpinOption> {
    let mut v = vec![];
    for l in crate::checks::uci_option_lines() {
        if !l.contains(" type spin ") {
            continue;
        }
        let name = l.split(" name ").nth(1).and_then(|r| r.split(" type ").next()).unwrap_or("").to_string();
        let w: Vec<&str> = l.split_whitespace().collect();
        let (mut min, mut max) = (0usize, 0usize);
        for i in 0..w.len().saturating_sub(1) {
            if w[i] == "min" {
                min = w[i + 1].parse().unwrap_or(0);
            }
            if w[i] == "max" {
                max = w[i + 1].parse().unwrap_or(0);
            }
        }
        v.push(SpinOption { name, min, max });
    }
    v
}

const C13_POS: &str = "position fen r3k2r/p1ppqpb1/bn2pnp1/3PN3/1p2P3/2N2Q1p/PPPBBPPP/R3K2R w KQkq - 0 1";

/// One option scenario: lines with `setoption`s; after every setoption: isready -> readyok; after the
/// script: go depth 3 -> one legal bestmove.
fn option_scenario_inner(run: &Run, lines: &[String]) {
    let case = J::obj(vec![("kind", J::s("uci-options")), ("lines", J::Arr(lines.iter().map(|l| J::s(l.clone())).collect()))]);
    let key = lines.join(" ; ");
    let root = Pos::from_fen("r3k2r/p1ppqpb1/bn2pnp1/3PN3/1p2P3/2N2Q1p/PPPBBPPP/R3K2R w KQkq - 0 1").unwrap();
    let legal: Vec<String> = root.legal_moves().iter().map(|m| m.uci()).collect();
    let mut d = match Drv::new(16) {
        Ok(d) => d,
        Err(e) => {
            run.violation("uci-panic", "uci-new".into(), case, e);
            return;
        }
    };
    let vio = |kind: &str, detail: String| run.violation(kind, format!("{kind}|{key}"), case.clone(), detail);
    let mut check_go = |d: &mut Drv| -> bool {
        if let Err(e) = d.send(C13_POS).and_then(|_| d.send("go depth 3")) {
            vio("option-go-failed", format!("go after [{}]: {e}", d.sent.join(" ; ")));
            return false;
        }
        match d.wait_search(WAIT) {
            Wait::Finished => {}
            w => {
                vio("option-search-did-not-finish", format!("search thread {w:?} after [{}]", d.sent.join(" ; ")));
                return false;
            }
        }
        let out = d.take();
        let bm: Vec<&String> = out.iter().filter(|l| l.starts_with("bestmove")).collect();
        if bm.len() != 1 || !legal.contains(&bm[0].split_whitespace().nth(1).unwrap_or("").to_string()) {
            vio("option-bestmove", format!("after [{}]: bestmove lines {:?}", d.sent.join(" ; "), bm));
            return false;
        }
        true
    };
    for l in lines {
        run.distinct_outcome(l.clone());
        if l.starts_with("go ") {
            // a clock-limited go (ends through its depth limit); must be answered by a legal bestmove
            d.take();
            if let Err(e) = d.send(C13_POS).and_then(|_| d.send(l)) {
                vio("option-go-failed", format!("`{l}` after [{}]: {e}", d.sent.join(" ; ")));
                return;
            }
            match d.wait_search(WAIT) {
                Wait::Finished => {}
                w => {
                    vio("option-search-did-not-finish", format!("search thread {w:?} after [{}]", d.sent.join(" ; ")));
                    return;
                }
            }
            let out = d.take();
            if out.iter().filter(|x| x.starts_with("bestmove")).count() != 1 {
                vio("option-bestmove", format!("after [{}]: {:?}", d.sent.join(" ; "), out.iter().filter(|x| x.starts_with("bestmove")).collect::<Vec<_>>()));
                return;
            }
            continue;
        }
        if l == "go" {
            if !check_go(&mut d) {
                return;
            }
            continue;
        }
        if let Err(e) = d.send(l) {
            vio("option-rejected", format!("`{l}`: {e}"));
            return;
        }
        d.take();
        if let Err(e) = d.send("isready") {
            vio("option-isready-failed", format!("isready after `{l}`: {e}"));
            return;
        }
        if !d.take().iter().any(|x| x == "readyok") {
            vio("option-no-readyok", format!("no readyok after `{l}`"));
            return;
        }
        // the option value must have been taken
        if let Some(v) = l.split(" value ").nth(1).and_then(|v| v.parse::<usize>().ok()) {
            let o = d.uci.verif_options();
            let got = if l.contains("name Hash") { o.hash_size } else if l.contains("name Threads") { o.threads } else { o.move_overhead };
            if got != v {
                vio("option-not-applied", format!("`{l}`: engine option reads {got}"));
            }
        }
    }
    check_go(&mut d);
}

fn option_scenario(run: &'static Run, lines: &[String]) {
    let l2 = lines.to_vec();
    // 90 s for a short scenario; long ones (all 1025 table sizes in one process) get 3 s more per command
    let limit = 90 + 3 * lines.len() as u64;
    if crate::util::with_timeout(limit, move || option_scenario_inner(run, &l2)).is_none() {
        let case = J::obj(vec![("kind", J::s("uci-options")), ("lines", J::Arr(lines.iter().map(|l| J::s(l.clone())).collect()))]);
        run.violation("option-command-blocks", format!("option-command-blocks|{}", lines.join(" ; ")), case, format!("the command loop did not come back within {limit} s during [{}] (blocked command or dead harness thread)", lines.join(" ; ")));
    }
}

pub fn c13(run: &'static Run) -> (u64, u64) {
    let quick = run.quick();
    let opts = spin_options();
    run.note(format!("advertised spin options: {:?}", opts));
    if opts.len() < 3 {
        run.machinery_error(format!("expected 3 spin options in the uci answer, parsed {}", opts.len()));
    }
    let mut scenarios: Vec<Vec<String>> = vec![];
    let set = |name: &str, v: usize| format!("setoption name {name} value {v}");
    for o in &opts {
        if o.name == "Hash" {
            let small: Vec<usize> = {
                let mut v = vec![o.min, o.min + 1, 1, 2, 3, 7, 8, 16];
                v.retain(|x| *x >= o.min && *x <= o.max);
                v.sort();
                v.dedup();
                v
            };
            let big: Vec<usize> = {
                let mut v = vec![255, 256, 257, o.max - 1, o.max];
                v.retain(|x| *x >= o.min && *x <= o.max);
                v.sort();
                v.dedup();
                v
            };
            if quick {
                for a in &small {
                    scenarios.push(vec![set("Hash", *a)]); // before the first search
                    scenarios.push(vec!["go".into(), set("Hash", *a)]); // between two searches
                    for b in &small {
                        scenarios.push(vec![set("Hash", *a), "go".into(), set("Hash", *b)]);
                    }
                }
                for a in &big {
                    scenarios.push(vec![set("Hash", *a)]);
                }
                scenarios.push(vec![set("Hash", o.max), "go".into(), set("Hash", o.min), "go".into(), set("Hash", o.max)]);
                // between searches with the other between-search commands a GUI sends
                for a in [o.min, 1, 8] {
                    scenarios.push(vec![set("Hash", a), "ucinewgame".into(), "go".into(), "ucinewgame".into(), "go".into()]);
                    scenarios.push(vec!["go".into(), "ucinewgame".into(), set("Hash", a)]);
                    scenarios.push(vec!["go".into(), "stop".into(), set("Hash", a)]);
                    scenarios.push(vec![set("Hash", a), "go".into(), "ucinewgame".into(), set("Hash", 2), "go".into(), "stop".into(), "ucinewgame".into(), set("Hash", a)]);
                }
            } else {
                // all values ascending and descending in one process, searching after every 16th and at the ends
                let mut asc = vec![];
                for v in o.min..=o.max {
                    asc.push(set("Hash", v));
                    if v % 16 == 0 || v == o.max || v < 4 {
                        asc.push("go".into());
                    }
                }
                scenarios.push(asc);
                let mut desc = vec![];
                for v in (o.min..=o.max).rev() {
                    desc.push(set("Hash", v));
                    if v % 16 == 1 || v == o.min || v + 3 > o.max {
                        desc.push("go".into());
                    }
                }
                scenarios.push(desc);
                for a in small.iter().chain(big.iter()) {
                    scenarios.push(vec![set("Hash", *a)]);
                    scenarios.push(vec!["go".into(), set("Hash", *a)]);
                    for b in small.iter().chain(big.iter()) {
                        scenarios.push(vec![set("Hash", *a), "go".into(), set("Hash", *b)]);
                    }
                }
            }
        } else {
            // every value; a search after the boundary values and every 100th
            let mut all = vec![];
            for v in o.min..=o.max {
                all.push(set(&o.name, v));
                if v == o.min || v == o.max || v % 100 == 0 {
                    all.push("go".into());
                }
            }
            scenarios.push(all);
            for v in [o.min, o.max, (o.min + o.max) / 2] {
                scenarios.push(vec![set(&o.name, v), "go wtime 30000 btime 30000 movestogo 40 depth 3".into(), "go wtime 2000 btime 2000 winc 100 binc 100 depth 3".into(), "go movetime 5000 depth 3".into(), "go movetime 100 depth 3".into(), "go movetime 1 depth 2".into(), "go wtime 100 btime 100 depth 3".into(), "go movetime 60".into(), "go wtime 150 btime 150".into()]);
                scenarios.push(vec![set(&o.name, v)]);
                scenarios.push(vec!["go".into(), set(&o.name, v)]);
                scenarios.push(vec!["go".into(), "ucinewgame".into(), set(&o.name, v)]);
                scenarios.push(vec!["go".into(), "stop".into(), set(&o.name, v)]);
            }
        }
    }
    // the same under `debug on` (the engine may print more; nothing else may change): shrinking, growing and repeated sizes
    if let Some(h) = opts.iter().find(|o| o.name == "Hash") {
        scenarios.push(vec!["debug on".into(), set("Hash", 300.min(h.max)), "go".into(), set("Hash", h.min.max(1)), "go".into(), set("Hash", 8.min(h.max)), set("Hash", 8.min(h.max)), "go".into(), "debug off".into(), set("Hash", h.min), "go".into()]);
        scenarios.push(vec!["debug on".into(), set("Move Overhead", 100), set("Move Overhead", 0), set("Threads", 1), "go".into()]);
    }
    // a long session: 300 option settings, each followed by a search, without a new game in between
    {
        let mut long: Vec<String> = vec![];
        for k in 0..300usize {
            long.push(match k % 3 {
                0 => set("Move Overhead", k % 1001),
                1 => set("Threads", 1),
                _ => set("Move Overhead", 1000 - (k % 1001)),
            });
            long.push("go depth 1".into());
        }
        scenarios.push(long);
    }
    // options combined
    if let (Some(h), Some(m)) = (opts.iter().find(|o| o.name == "Hash"), opts.iter().find(|o| o.name == "Move Overhead")) {
        scenarios.push(vec![set("Hash", h.min), set("Move Overhead", m.max), set("Threads", 1), "go".into(), set("Hash", 2), set("Move Overhead", m.min)]);
    }
    let n_cmds: u64 = scenarios.iter().map(|s| s.len() as u64).sum();
    // big tables one at a time: scenarios touching sizes > 64 MB run sequentially, the rest in parallel
    let (bigs, smalls): (Vec<_>, Vec<_>) = scenarios.iter().cloned().partition(|s| s.iter().any(|l| l.contains("name Hash value ") && l.split(" value ").nth(1).and_then(|v| v.parse::<usize>().ok()).unwrap_or(0) > 64));
    par_for(smalls.len(), |i| option_scenario(run, &smalls[i]));
    for s in &bigs {
        option_scenario(run, s);
    }
    run.family("OPTIONS", &format!("spin options parsed from the engine's own uci answer ({:?}); Move Overhead and Threads: every value; Hash: {} ; each setoption followed by isready -> readyok and the option read back; go depth 3 -> exactly one legal bestmove", opts.iter().map(|o| format!("{} {}..{}", o.name, o.min, o.max)).collect::<Vec<_>>(), if quick { "boundary and small values singly, before the first search and between searches, and in all ordered pairs of small values; large sizes singly; max->min->max" } else { "all values ascending and descending in one process, plus all ordered pairs of boundary values" }), scenarios.len() as u64, n_cmds, true, "in process, real threads");
    run.sample(J::obj(vec![("scenario", J::Arr(vec![J::s("setoption name Hash value 0"), J::s("isready"), J::s(C13_POS), J::s("go depth 3"), J::s("setoption name Hash value 8"), J::s("isready"), J::s("go depth 3")]))]));
    (scenarios.len() as u64, n_cmds)
}

pub fn replay_options(run: &'static Run, case: &J) {
    let lines: Vec<String> = case.get("lines").and_then(|x| x.as_arr()).map(|a| a.iter().filter_map(|x| x.as_str().map(|s| s.to_string())).collect()).unwrap_or_default();
    println!("scenario: {}", lines.join(" ; "));
    option_scenario(run, &lines);
}

// ------------------------------------------------------------------------------------------------ C17

thread_local! {
    /// the `position` line sent on this driver just before the one being checked (part of the replayable case)
    static BEFORE_LINE: std::cell::RefCell<Option<String>> = const { std::cell::RefCell::new(None) };
}

fn check_position_cmd(run: &Run, d: &mut Drv, base: &str, base_pos: &Pos, moves: &[RMove], want: &Pos, with_go: bool, n: &AtomicU64) {
    let mut line = format!("position {base}");
    if !moves.is_empty() {
        line.push_str(" moves");
        for m in moves {
            line.push(' ');
            line.push_str(&m.uci());
        }
    }
    let before = BEFORE_LINE.with(|b| b.borrow().clone());
    let case = J::obj(vec![("kind", J::s("position-cmd")), ("line", J::s(line.clone())), ("before", before.clone().map(J::s).unwrap_or(J::Null))]);
    let vio = |kind: &str, detail: String| run.violation(kind, format!("{kind}|{}{line}", before.as_ref().map(|b| format!("{b} ; ")).unwrap_or_default()), case.clone(), detail);
    n.fetch_add(1, Ordering::Relaxed);
    if let Err(e) = d.send(&line) {
        vio("position-command-failed", e);
        return;
    }
    let g = d.uci.verif_game();
    run.distinct_outcome_sig(g.zobrist.0, || g.to_fen());
    if let Err(e) = mo::compare_with_ref(g, want) {
        vio("position-wrong", format!("after `{line}`: {e} (engine FEN {})", g.to_fen()));
        return;
    }
    // the FEN dump describes the position
    match Pos::from_fen(&g.to_fen()) {
        Ok(rp) if rp.board == want.board && rp.side == want.side && rp.castle == want.castle && rp.halfmove == want.halfmove && rp.fullmove == want.fullmove => {}
        other => vio("position-fen-dump", format!("FEN dump {} does not describe {} ({:?})", g.to_fen(), want.to_fen(), other.err())),
    }
    if g.history.len() != moves.len() {
        vio("position-history", format!("game history has {} entries for {} moves", g.history.len(), moves.len()));
    }
    // the replies it will consider, in long algebraic form
    let mut got: Vec<String> = g.moves().iter().map(|m| format!("{m:?}")).collect();
    got.sort();
    let mut exp: Vec<String> = want.legal_moves().iter().map(|m| m.uci()).collect();
    exp.sort();
    if got != exp {
        vio("position-replies", format!("after `{line}` the engine considers {:?}, the rules give {:?}", got, exp));
    }
    // the reporting layer (bestmove / pv text) writes moves through UciMove::notation
    // (move by move: a swap of two promotion letters leaves the set of texts unchanged)
    for m in g.moves().iter() {
        let want_text = crate::eng::move_from_eng(*m).uci();
        let printed = crate::engine::uci::UciMove::from(*m).notation();
        let debug = format!("{m:?}");
        if printed != want_text || debug != want_text {
            vio("move-text", format!("after `{line}`: the move {want_text} is printed as {printed} by the reporting layer and as {debug} by the move list"));
            break;
        }
    }
    let _ = base_pos;
    if with_go && !exp.is_empty() {
        d.take();
        if let Err(e) = d.send("go depth 1") {
            vio("position-go-failed", e);
            return;
        }
        if d.wait_search(WAIT) != Wait::Finished {
            vio("position-go-failed", "search did not finish".into());
            return;
        }
        let out = d.take();
        let bm: Vec<&String> = out.iter().filter(|l| l.starts_with("bestmove ")).collect();
        let ok = bm.len() == 1 && {
            let t = bm[0].split_whitespace().nth(1).unwrap_or("");
            let b = t.as_bytes();
            let shape = (b.len() == 4 || b.len() == 5) && (b'a'..=b'h').contains(&b[0]) && (b'1'..=b'8').contains(&b[1]) && (b'a'..=b'h').contains(&b[2]) && (b'1'..=b'8').contains(&b[3]) && (b.len() == 4 || b"nbrq".contains(&b[4]));
            shape && exp.contains(&t.to_string())
        };
        if !ok {
            vio("position-bestmove-text", format!("after `{line}` + go depth 1: {:?}", bm));
        }
    }
}

fn walk_paths(run: &Run, d: &mut Drv, base: &str, base_pos: &Pos, cur: &Pos, moves: &mut Vec<RMove>, left: usize, go_stride: u64, n: &AtomicU64) {
    let with_go = go_stride > 0 && n.load(Ordering::Relaxed) % go_stride == 0;
    check_position_cmd(run, d, base, base_pos, moves, cur, with_go, n);
    if left == 0 {
        return;
    }
    for m in cur.legal_moves() {
        moves.push(m);
        let nx = cur.apply(&m);
        walk_paths(run, d, base, base_pos, &nx, moves, left - 1, go_stride, n);
        moves.pop();
    }
}

pub fn c17(run: &Run) -> (u64, u64) {
    let quick = run.quick();
    let e = usize::from(!quick); // thorough: one ply more everywhere
    let fens: Vec<(&str, usize)> = vec![
        ("startpos", 3 + e),
        ("fen r3k2r/8/8/8/8/8/8/R3K2R w KQkq - 0 1", 3 + e),
        ("fen r3k2r/8/8/8/8/8/8/R3K2R b KQkq - 5 20", 3 + e),
        ("fen 4k3/3p1p2/8/4P3/4p3/8/3P1P2/4K3 w - - 0 1", 4 + e),
        ("fen 4k3/3p1p2/8/4P3/4p3/8/3P1P2/4K3 b - - 0 1", 4 + e),
        ("fen rnbqkbnr/ppp1p1pp/8/3pPp2/8/8/PPPP1PPP/RNBQKBNR w KQkq f6 0 3", 2 + e),
        ("fen r3k2r/1P4P1/8/8/8/8/1p4p1/R3K2R w KQkq - 0 1", 3 + e),
        ("fen r3k2r/1P4P1/8/8/8/8/1p4p1/R3K2R b KQkq - 0 1", 3 + e),
        ("fen 1n1rk3/2P5/8/8/8/8/5p2/3RK1N1 w - - 0 1", 3 + e),
        ("fen 8/P6k/8/8/8/8/7K/8 w - - 7 50", 4 + e),
        ("fen r3k2r/p1ppqpb1/bn2pnp1/3PN3/1p2P3/2N2Q1p/PPPBBPPP/R3K2R w KQkq -", 2 + e),
        ("fen 8/2p5/3p4/KP5r/1R3p1k/8/4P1P1/8 w - -", 3 + e),
        ("fen 4k3/8/8/8/8/8/4P3/4K2R b K - 99 60", 3 + e),
        // en passant that re-closes the file it opens (king and enemy queen on the pushed pawn's file), and en passant by a
        // pawn pinned on the diagonal it captures along
        ("fen rnb1qbnr/pppkpppp/8/3P4/8/P4N2/1PPP1PPP/RNBQKB1R b KQ - 0 4", 2),
        ("fen 1b5k/3p4/8/4P3/8/6K1/8/8 b - - 0 1", 2 + e),
        ("fen 8/8/6k1/8/4p3/8/3P4/1B5K w - - 0 1", 2 + e),
        // the position with the most legal moves known (nine queens of one colour), a root beyond the fifty-move mark
        ("fen R6R/3Q4/1Q4Q1/4Q3/2Q4Q/Q4Q2/pp1Q4/kBNN1KB1 w - - 0 1", 1),
        ("fen 8/5k2/8/8/8/8/4R3/4K3 w - - 99 50", 3),
        ("fen 8/5k2/8/8/8/8/4R3/4K3 b - - 120 90", 2),
        // optional fields omitted, Black to move
        ("fen rnbqkbnr/pppppppp/8/8/4P3/8/PPPP1PPP/RNBQKBNR b KQkq -", 3),
        ("fen rnbqkbnr/pppppppp/8/8/4P3/8/PPPP1PPP/RNBQKBNR b KQkq - 7", 2),
        ("fen r3k2r/8/8/8/8/8/8/R3K2R b KQkq -", 3),
    ];
    let n = AtomicU64::new(0);
    par_for(fens.len(), |i| {
        let (base, depth) = fens[i];
        let base_pos = if base == "startpos" { Pos::startpos() } else { Pos::from_fen(base.trim_start_matches("fen ")).unwrap() };
        if !base_pos.is_legal_position() {
            run.machinery_error(format!("C17 base {base} is not a legal position"));
            return;
        }
        let mut d = match Drv::new(1) {
            Ok(d) => d,
            Err(e) => {
                run.violation("uci-panic", "uci-new".into(), J::Null, e);
                return;
            }
        };
        let mut mv = vec![];
        walk_paths(run, &mut d, base, &base_pos, &base_pos.clone(), &mut mv, depth, 97, &n);
    });
    // every subset of castling rights in the FEN root, both sides, one ply of moves
    let mut right_bases: Vec<String> = vec![];
    for placement in ["r3k2r/pppppppp/8/8/8/8/PPPPPPPP/R3K2R", "r3k2r/8/8/8/8/8/8/R3K2R"] {
        for mask in 0..16 {
            for side in ["w", "b"] {
                let mut r = String::new();
                for (i, ch) in ['K', 'Q', 'k', 'q'].iter().enumerate() {
                    if mask & (1 << i) != 0 {
                        r.push(*ch);
                    }
                }
                if r.is_empty() {
                    r.push('-');
                }
                right_bases.push(format!("fen {placement} {side} {r} - 0 1"));
            }
        }
    }
    par_for(right_bases.len(), |i| {
        let base = &right_bases[i];
        let base_pos = Pos::from_fen(base.trim_start_matches("fen ")).unwrap();
        let Ok(mut d) = Drv::new(1) else { return };
        let mut mv = vec![];
        walk_paths(run, &mut d, base, &base_pos, &base_pos.clone(), &mut mv, 2, 0, &n);
    });
    let a = n.load(Ordering::Relaxed);
    run.family("POSITION-PATHS", &format!("every game (path) of length <= d from the start position and {} FENs (both castlings for both sides, en passant, all four promotion pieces incl. capturing promotions, with and without counters), each sent as one `position ... moves ...` line; every 97th followed by go depth 1; plus 2 placements x all 16 castling-right subsets x both sides to depth 2", fens.len() - 1), a, a, true, "");
    // two `position` commands in one process whose roots agree in placement, side, rights and en-passant square but
    // not in the counters (or in how the root is written): the second must not inherit anything from the first
    let n3 = AtomicU64::new(0);
    let cores: Vec<(&str, bool)> = vec![
        ("rnbqkbnr/pppppppp/8/8/8/8/PPPPPPPP/RNBQKBNR w KQkq -", true),
        ("8/5k2/8/8/8/8/4R3/4K3 w - -", false),
        ("r3k2r/8/8/8/8/8/8/R3K2R b KQkq -", false),
        ("rnbqkbnr/ppp1p1pp/8/3pPp2/8/8/PPPP1PPP/RNBQKBNR w KQkq f6", false),
    ];
    par_for(cores.len(), |ci| {
        let (core, is_start) = cores[ci];
        let mut variants: Vec<String> = ["", " 0 1", " 37 61", " 99 50", " 4 3", " 7"].iter().map(|c| format!("fen {core}{c}")).collect();
        if is_start {
            variants.push("startpos".to_string());
        }
        // one fixed line of three plies (middle move of the sorted legal list each time)
        let p0 = Pos::from_fen(core).unwrap();
        let mut line_moves: Vec<RMove> = vec![];
        let mut cur = p0.clone();
        for ply in 0..3 {
            let mut l = cur.legal_moves();
            l.sort();
            let m = l[(l.len() / 2 + ply) % l.len()];
            cur = cur.apply(&m);
            line_moves.push(m);
        }
        let Ok(mut d) = Drv::new(1) else { return };
        for v1 in &variants {
            for v2 in &variants {
                if v1 == v2 {
                    continue;
                }
                for k1 in 0..=3usize {
                    for k2 in k1..=3usize {
                        let mut first = format!("position {v1}");
                        if k1 > 0 {
                            first.push_str(" moves");
                            for m in &line_moves[..k1] {
                                first.push(' ');
                                first.push_str(&m.uci());
                            }
                        }
                        if d.send(&first).is_err() {
                            run.violation("position-command-failed", format!("position-command-failed|{first}"), J::obj(vec![("kind", J::s("position-cmd")), ("line", J::s(first.clone()))]), "command failed".into());
                            return;
                        }
                        let base2 = if v2 == "startpos" { Pos::startpos() } else { Pos::from_fen(v2.trim_start_matches("fen ")).unwrap() };
                        let mut want = base2.clone();
                        for m in &line_moves[..k2] {
                            want = want.apply(m);
                        }
                        BEFORE_LINE.with(|x| *x.borrow_mut() = Some(first.clone()));
                        check_position_cmd(run, &mut d, v2, &base2, &line_moves[..k2], &want, false, &n3);
                        BEFORE_LINE.with(|x| *x.borrow_mut() = None);
                    }
                }
            }
        }
    });
    let a3 = n3.load(Ordering::Relaxed);
    run.family("POSITION-PAIRS", "4 roots x all ordered pairs of 6-7 ways of writing the root (counters omitted / 0 1 / 37 61 / 99 50 / 4 3 / halfmove only / startpos) x all prefix pairs k1 <= k2 <= 3 of one line: two `position` commands on one engine, the second judged", a3, a3, true, "");
    // constellation families through the text path: every promotion of the promotion family as `position fen P moves m`,
    // every en-passant constellation as `position fen <before the double step> moves <double step> [<en-passant capture>]`
    let n4 = AtomicU64::new(0);
    {
        use crate::refchess::{self as rc, Color, Kind};
        let quick = run.quick();
        let mut promo_positions: Vec<Pos> = vec![];
        crate::families::enumerate_promo(&mut |p: &Pos| {
            let pawns = p.board.iter().filter(|x| matches!(x, Some((_, Kind::P)))).count();
            if !quick || pawns == 1 {
                promo_positions.push(p.clone());
            }
        });
        let chunks: Vec<&[Pos]> = promo_positions.chunks(2000).collect();
        par_for(chunks.len(), |ci| {
            let Ok(mut d) = Drv::new(1) else { return };
            for p in chunks[ci] {
                let base = format!("fen {}", p.to_fen());
                for m in p.legal_moves().into_iter().filter(|m| m.promo.is_some()) {
                    let want = p.apply(&m);
                    check_position_cmd(run, &mut d, &base, p, &[m], &want, false, &n4);
                }
            }
        });
        let extras: Vec<Option<crate::families::Man>> = if quick { vec![None] } else { vec![None, Some((Color::B, Kind::B)), Some((Color::B, Kind::Q)), Some((Color::B, Kind::R))] };
        let items: Vec<(i32, Option<crate::families::Man>)> = extras.iter().flat_map(|e| (0..8).map(move |f| (f, *e))).collect();
        par_for(items.len(), |i| {
            let (f, extra) = items[i];
            let Ok(mut d) = Drv::new(1) else { return };
            crate::families::enumerate_ep(f, extra, true, !quick && extra.is_some(), &mut |p: &Pos| {
                // p: the double step has just been played; rebuild the position before it
                let Some(target) = p.ep else { return };
                let pusher = p.side.other();
                let (to, from) = if pusher == Color::B { (target - 8, target + 8) } else { (target + 8, target - 8) };
                let mut before = p.clone();
                before.board[from as usize] = before.board[to as usize].take();
                before.side = pusher;
                before.ep = None;
                before.halfmove = 3;
                if pusher == Color::B {
                    // (p is then White's move with the same move number)
                } else {
                    before.fullmove = p.fullmove.max(2) - 1;
                }
                if !before.is_legal_position() {
                    return;
                }
                let Some(push) = before.legal_moves().into_iter().find(|m| m.from == from && m.to == to) else { return };
                let after = before.apply(&push);
                let base = format!("fen {}", before.to_fen());
                check_position_cmd(run, &mut d, &base, &before, &[push], &after, false, &n4);
                for m in after.legal_moves().into_iter().filter(|m| m.ep) {
                    let want = after.apply(&m);
                    check_position_cmd(run, &mut d, &base, &before, &[push, m], &want, false, &n4);
                }
                let _ = rc::WK;
            });
        });
    }
    let a4 = n4.load(Ordering::Relaxed);
    run.family("POSITION-FAMILIES", &format!("every promotion of the promotion family ({}) and every en-passant constellation ({}) sent as `position fen .. moves ..` (the double step and the capture played through the text path)", if run.quick() { "one pawn" } else { "one or two pawns" }, if run.quick() { "no further man" } else { "no further man / a further enemy bishop, queen or rook on a line through the pawns" }), a4, a4, true, "");
    // long deterministic games, every prefix
    let n2 = AtomicU64::new(0);
    let policies = ["first", "last", "middle", "capture-first"];
    let starts = ["startpos", "fen r3k2r/p1ppqpb1/bn2pnp1/3PN3/1p2P3/2N2Q1p/PPPBBPPP/R3K2R w KQkq - 0 1"];
    let plies = if quick { 150 } else { 300 };
    par_for(8, |i| {
        let (pol, start) = (policies[i % 4], starts[i / 4]);
        let base_pos = if start == "startpos" { Pos::startpos() } else { Pos::from_fen(start.trim_start_matches("fen ")).unwrap() };
        let mut d = Drv::new(1).unwrap();
        let mut cur = base_pos.clone();
        let mut mv: Vec<RMove> = vec![];
        for ply in 0..plies {
            check_position_cmd(run, &mut d, start, &base_pos, &mv, &cur, ply % 25 == 0, &n2);
            let mut l = cur.legal_moves();
            if l.is_empty() {
                break;
            }
            l.sort();
            let m = match pol {
                "first" => l[0],
                "last" => l[l.len() - 1],
                "middle" => l[(l.len() / 2 + ply) % l.len()],
                _ => *l.iter().find(|m| m.capture || m.promo.is_some() || m.castle).unwrap_or(&l[(ply * 7) % l.len()]),
            };
            cur = cur.apply(&m);
            mv.push(m);
        }
    });
    let b = n2.load(Ordering::Relaxed);
    run.family("POSITION-LONG-GAMES", &format!("8 deterministic games (policies first / last / middle / capture-first x 2 starts) of up to {plies} plies, the position command sent at every prefix length"), b, b, true, "");
    run.sample(J::obj(vec![("line", J::s("position fen r3k2r/1P4P1/8/8/8/8/1p4p1/R3K2R w KQkq - 0 1 moves b7a8n b2a1q e1g1"))]));
    (a + b + a3 + a4, a + b + a3 + a4)
}

pub fn replay_position(run: &Run, case: &J) {
    let line = case.get("line").and_then(|x| x.as_str()).unwrap_or("").to_string();
    let rest = line.trim_start_matches("position ").to_string();
    let (base, moves) = match rest.split_once(" moves ") {
        Some((b, m)) => (b.to_string(), m.split_whitespace().map(|s| s.to_string()).collect::<Vec<_>>()),
        None => (rest.clone(), vec![]),
    };
    let base_pos = if base == "startpos" { Pos::startpos() } else { Pos::from_fen(base.trim_start_matches("fen ")).unwrap() };
    let mut cur = base_pos.clone();
    let mut mv = vec![];
    for m in &moves {
        let Some(rm) = cur.legal_moves().into_iter().find(|x| x.uci() == *m) else {
            println!("{m} is not legal in the reference");
            return;
        };
        cur = cur.apply(&rm);
        mv.push(rm);
    }
    let mut d = Drv::new(1).unwrap();
    let n = AtomicU64::new(0);
    if let Some(b) = case.get("before").and_then(|x| x.as_str()) {
        println!("first: {b}");
        let _ = d.send(b);
        BEFORE_LINE.with(|x| *x.borrow_mut() = Some(b.to_string()));
    }
    check_position_cmd(run, &mut d, &base, &base_pos, &mv, &cur, true, &n);
    BEFORE_LINE.with(|x| *x.borrow_mut() = None);
    println!("engine FEN after the command: {}", d.uci.verif_game().to_fen());
    println!("rules:                        {}", cur.to_fen());
}
