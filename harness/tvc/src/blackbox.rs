//! E7: black-box replayer. Feeds command scripts to the optimised engine binary (the repository's own
//! release profile, real main.rs, real stdout, panic=abort) over pipes. It replays scripts produced by
//! the explorers on the shipped artefact: the conformance step between the instrumented in-process
//! runs and the binary a user runs. One schedule per script (real threads) — labelled so.

#![allow(dead_code)]

use std::io::{BufRead, BufReader, Write};
use std::process::{Child, Command, Stdio};
use std::sync::mpsc::{sync_channel, Receiver};
use std::time::{Duration, Instant};

pub struct Engine {
    child: Child,
    rx: Receiver<String>,
    pub transcript: Vec<String>,
    /// every line received so far
    pub received: Vec<String>,
}

pub fn binary() -> Option<String> {
    let p = std::env::var("VERIF_ENGINE_BIN").ok()?;
    if std::path::Path::new(&p).exists() {
        Some(p)
    } else {
        None
    }
}

impl Engine {
    pub fn start(bin: &str) -> Result<Engine, String> {
        let mut child = Command::new(bin).stdin(Stdio::piped()).stdout(Stdio::piped()).stderr(Stdio::null()).spawn().map_err(|e| format!("cannot start {bin}: {e}"))?;
        let out = child.stdout.take().unwrap();
        // bounded: an engine that floods its output is slowed down by the pipe instead of filling this process's memory
        let (tx, rx) = sync_channel(10_000);
        std::thread::spawn(move || {
            for l in BufReader::new(out).lines().map_while(Result::ok) {
                if tx.send(l).is_err() {
                    break;
                }
            }
        });
        Ok(Engine { child, rx, transcript: vec![], received: vec![] })
    }

    pub fn send(&mut self, line: &str) -> Result<(), String> {
        self.transcript.push(format!("> {line}"));
        let stdin = self.child.stdin.as_mut().ok_or("stdin closed")?;
        writeln!(stdin, "{line}").map_err(|e| format!("write failed (engine gone?): {e}"))?;
        stdin.flush().map_err(|e| e.to_string())
    }

    /// Read lines until one starts with `prefix`; Err on time-out or end of output.
    pub fn wait_for(&mut self, prefix: &str, timeout: Duration) -> Result<Vec<String>, String> {
        let deadline = Instant::now() + timeout;
        let mut got = vec![];
        loop {
            let left = deadline.saturating_duration_since(Instant::now());
            match self.rx.recv_timeout(left) {
                Ok(l) => {
                    self.transcript.push(format!("< {l}"));
                    self.received.push(l.clone());
                    let hit = l.starts_with(prefix);
                    got.push(l);
                    if hit {
                        return Ok(got);
                    }
                    if got.len() > 300_000 {
                        let _ = self.child.kill();
                        return Err(format!("more than 300000 lines of output without `{prefix}` (last: {})", got.last().unwrap()));
                    }
                }
                Err(std::sync::mpsc::RecvTimeoutError::Timeout) => return Err(format!("no `{prefix}` within {:?}", timeout)),
                Err(std::sync::mpsc::RecvTimeoutError::Disconnected) => return Err(format!("engine output ended while waiting for `{prefix}` (exit status {:?})", self.child.try_wait().ok().flatten())),
            }
        }
    }

    /// Wait until at least `n` lines starting with `prefix` have been received in total (answers may
    /// have been read already while waiting for something else).
    pub fn wait_for_count(&mut self, prefix: &str, n: usize, timeout: Duration) -> Result<(), String> {
        let deadline = Instant::now() + timeout;
        while self.received.iter().filter(|l| l.starts_with(prefix)).count() < n {
            let left = deadline.saturating_duration_since(Instant::now());
            if left.is_zero() {
                return Err(format!("only {} `{prefix}` line(s) within {:?}, {n} expected", self.received.iter().filter(|l| l.starts_with(prefix)).count(), timeout));
            }
            self.wait_for(prefix, left)?;
        }
        Ok(())
    }

    pub fn count(&self, prefix: &str) -> usize {
        self.received.iter().filter(|l| l.starts_with(prefix)).count()
    }

    pub fn alive(&mut self) -> bool {
        matches!(self.child.try_wait(), Ok(None))
    }

    /// Send quit and wait for the process to end; returns the exit status text.
    pub fn quit(mut self, timeout: Duration) -> Result<String, String> {
        let _ = self.send("quit");
        let deadline = Instant::now() + timeout;
        loop {
            match self.child.try_wait() {
                Ok(Some(st)) => return if st.success() { Ok(format!("{st}")) } else { Err(format!("engine exit status {st}")) },
                Ok(None) => {
                    if Instant::now() > deadline {
                        let _ = self.child.kill();
                        return Err("quit did not end the process".into());
                    }
                    std::thread::sleep(Duration::from_millis(5));
                }
                Err(e) => return Err(e.to_string()),
            }
        }
    }

    pub fn kill(mut self) {
        let _ = self.child.kill();
        let _ = self.child.wait();
    }
}

impl Drop for Engine {
    fn drop(&mut self) {
        let _ = self.child.kill();
        let _ = self.child.wait();
    }
}
