//! Harness side of the hooks of /repo (cfg jgilchrist_tcheran_verif): `crate::verif_shim` (what the
//! three hooked files see as `std`) and `crate::verif_hooks` (stop-flag poll seam, node report,
//! response log). All state is per thread; a thread spawned through the shim inherits the response
//! log of its parent so that `bestmove` printed by a search thread lands in the right session.

pub mod verif_shim {
    pub use ::std::*;

    pub mod sync {
        pub use ::std::sync::*;
    }

    pub mod thread {
        pub use ::std::thread::*;

        pub fn spawn<F, T>(f: F) -> ::std::thread::JoinHandle<T>
        where
            F: FnOnce() -> T + Send + 'static,
            T: Send + 'static,
        {
            let log = crate::verif_hooks::current_log();
            let sink = crate::verif_hooks::handle_sink();
            let (tx, rx) = ::std::sync::mpsc::channel::<()>();
            let h = ::std::thread::Builder::new()
                .stack_size(64 * 1024 * 1024)
                .spawn(move || {
                    crate::verif_hooks::set_log(log);
                    let r = f();
                    let _ = tx.send(());
                    r
                })
                .unwrap();
            if let Some(s) = sink {
                s.lock().unwrap().push(rx);
            }
            h
        }
    }

    pub mod time {
        pub use ::std::time::Duration;
        pub use ::std::time::{SystemTime, UNIX_EPOCH};

        /// `std::time::Instant` unless a virtual clock is installed on this thread.
        #[derive(Clone, Copy, Debug)]
        pub enum Instant {
            Real(::std::time::Instant),
            Virtual(u64), // nanoseconds
        }

        impl Instant {
            pub fn now() -> Self {
                match crate::verif_hooks::clock_read() {
                    Some(ns) => Instant::Virtual(ns),
                    None => Instant::Real(::std::time::Instant::now()),
                }
            }

            pub fn elapsed(&self) -> Duration {
                match (*self, Instant::now()) {
                    (Instant::Real(a), Instant::Real(_)) => a.elapsed(),
                    (Instant::Virtual(a), Instant::Virtual(b)) => Duration::from_nanos(b.saturating_sub(a)),
                    // clock installed or removed in between: treat as no time passed
                    _ => Duration::ZERO,
                }
            }

            pub fn duration_since(&self, earlier: Instant) -> Duration {
                match (*self, earlier) {
                    (Instant::Real(a), Instant::Real(b)) => a.duration_since(b),
                    (Instant::Virtual(a), Instant::Virtual(b)) => Duration::from_nanos(a.saturating_sub(b)),
                    _ => Duration::ZERO,
                }
            }
        }
    }
}

pub mod verif_hooks {
    use std::cell::RefCell;
    use std::sync::atomic::AtomicBool;
    use std::sync::{Arc, Mutex};

    pub type Log = Arc<Mutex<Vec<String>>>;
    pub type Sink = Arc<Mutex<Vec<std::sync::mpsc::Receiver<()>>>>;

    #[derive(Clone, Debug)]
    pub enum Clock {
        /// frozen at 0
        Frozen,
        /// every read advances the clock by this many nanoseconds
        StepPerRead(u64),
        /// 0 until the r-th read (1-based), "expired" (1e6 s) from then on
        ExpireAtRead(u64),
        /// time = nodes reported so far * ns per node (+ 1 ns per read so that time is strictly monotone)
        PerNode(u64),
    }

    #[derive(Default)]
    pub struct State {
        // stop-flag seam
        pub polls: u64,
        /// the flag reads true from this poll (1-based) on
        pub stop_at_poll: Option<u64>,
        pub first_true_poll: Option<u64>,
        pub polls_after_true: u64,
        // node report
        pub nodes_max: u64,
        pub should_stop_calls: u64,
        pub nodes_at_first_true: Option<u64>,
        pub calls_after_true: u64,
        pub node_budget: Option<u64>,
        // clock seam
        pub clock: Option<Clock>,
        pub clock_reads: u64,
        pub clock_ns: u64,
        // limits reported by TimeStrategy::new (hook H5), most recent last
        pub limits: Vec<(std::time::Duration, std::time::Duration)>,
        // responses
        pub log: Option<Log>,
        pub sink: Option<Sink>,
    }

    thread_local! {
        pub static ST: RefCell<State> = RefCell::new(State::default());
    }

    pub fn reset() {
        ST.with(|s| {
            let mut s = s.borrow_mut();
            let log = s.log.take();
            let sink = s.sink.take();
            *s = State::default();
            s.log = log;
            s.sink = sink;
        });
    }

    pub fn with<R>(f: impl FnOnce(&mut State) -> R) -> R {
        ST.with(|s| f(&mut s.borrow_mut()))
    }

    /// Called by `TimeStrategy::is_force_stopped`. `None` = use the real flag.
    pub fn poll(_flag: &Arc<AtomicBool>) -> Option<bool> {
        ST.with(|s| {
            let mut s = s.borrow_mut();
            s.polls += 1;
            if s.first_true_poll.is_some() {
                s.polls_after_true += 1;
            }
            match s.stop_at_poll {
                Some(k) if s.polls >= k => {
                    if s.first_true_poll.is_none() {
                        s.first_true_poll = Some(s.polls);
                        s.nodes_at_first_true = Some(s.nodes_max);
                    }
                    Some(true)
                }
                Some(_) => Some(false),
                None => None,
            }
        })
    }

    /// Called at the top of `TimeStrategy::should_stop` (once per node visited).
    pub fn nodes(n: u64) {
        let over = ST.with(|s| {
            let mut s = s.borrow_mut();
            s.should_stop_calls += 1;
            if s.first_true_poll.is_some() {
                s.calls_after_true += 1;
            }
            if n > s.nodes_max {
                s.nodes_max = n;
            }
            matches!(s.node_budget, Some(b) if n > b)
        });
        if over {
            panic!("verif: node budget exceeded (search does not terminate)");
        }
    }

    /// Called by `TimeStrategy::new` with the limits it computed.
    pub fn limits(soft: std::time::Duration, hard: std::time::Duration) {
        ST.with(|s| {
            let mut s = s.borrow_mut();
            if s.limits.len() < 4 {
                s.limits.push((soft, hard));
            } else {
                s.limits[3] = (soft, hard);
            }
        });
    }

    pub fn take_limits() -> Vec<(std::time::Duration, std::time::Duration)> {
        ST.with(|s| std::mem::take(&mut s.borrow_mut().limits))
    }

    pub fn clock_read() -> Option<u64> {
        ST.with(|s| {
            let mut s = s.borrow_mut();
            let c = s.clock.clone()?;
            s.clock_reads += 1;
            let ns = match c {
                Clock::Frozen => 0,
                Clock::StepPerRead(d) => {
                    s.clock_ns += d;
                    s.clock_ns
                }
                Clock::ExpireAtRead(r) => {
                    if s.clock_reads >= r {
                        1_000_000_000_000_000
                    } else {
                        0
                    }
                }
                Clock::PerNode(per) => s.nodes_max * per + s.clock_reads,
            };
            Some(ns)
        })
    }

    /// Called by `send_response`; returning true swallows the line (it is in the log instead).
    pub fn response(line: &str) -> bool {
        ST.with(|s| {
            let s = s.borrow();
            match &s.log {
                Some(l) => {
                    l.lock().unwrap().push(line.to_string());
                    true
                }
                None => false,
            }
        })
    }

    pub fn current_log() -> Option<Log> {
        ST.with(|s| s.borrow().log.clone())
    }

    pub fn handle_sink() -> Option<Sink> {
        ST.with(|s| s.borrow().sink.clone())
    }

    pub fn set_log(l: Option<Log>) {
        ST.with(|s| s.borrow_mut().log = l);
    }

    pub fn set_sink(k: Option<Sink>) {
        ST.with(|s| s.borrow_mut().sink = k);
    }
}
