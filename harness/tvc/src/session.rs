//! E4: search-session machinery. One search = the engine's real `search::search` on a real
//! `PersistentState`, with the stop flag and the clock behind the seams of hook H1 and a recording
//! `Reporter`. Monitors for C04 (legal move, no panic, terminates), C08 (info lines), C09 (stop
//! instants) and C12 (determinism) are built on `run_search`.

#![allow(dead_code)]

use crate::chess::game::Game;
use crate::chess::moves::Move;
use crate::eng;
use crate::engine::options::EngineOptions;
use crate::engine::search::time_control::TimeStrategy;
use crate::engine::search::{self, Clocks, PersistentState, Reporter, SearchInfo, SearchRestrictions, SearchScore, TimeControl};
use crate::refchess::{Pos, RMove};
use crate::util::{catch, J};
use crate::verif_hooks::{self as vh, Clock};
use std::time::Duration;

#[derive(Clone, Debug, PartialEq, Eq)]
pub struct InfoRec {
    pub depth: u8,
    pub seldepth: u8,
    /// (is_mate, value)
    pub score: (bool, i16),
    pub pv: Vec<String>,
    pub nodes: u64,
    pub hashfull: usize,
}

impl InfoRec {
    pub fn text(&self) -> String {
        format!("depth {} seldepth {} score {} {} nodes {} hashfull {} pv {}", self.depth, self.seldepth, if self.score.0 { "mate" } else { "cp" }, self.score.1, self.nodes, self.hashfull, self.pv.join(" "))
    }
}

pub struct Recorder {
    pub infos: Vec<InfoRec>,
    pub pvs: Vec<Vec<Move>>,
}

impl Reporter for Recorder {
    fn generic_report(&self, _: &str) {}
    fn report_search_progress(&mut self, _: &Game, p: SearchInfo) {
        let pv: Vec<Move> = p.pv.clone().into_iter().collect();
        self.infos.push(InfoRec {
            depth: p.depth,
            seldepth: p.seldepth,
            score: match p.score {
                SearchScore::Centipawns(c) => (false, c),
                SearchScore::Mate(m) => (true, m),
            },
            pv: pv.iter().map(|m| format!("{m:?}")).collect(),
            nodes: p.stats.nodes,
            hashfull: p.hashfull,
        });
        self.pvs.push(pv);
    }
    fn best_move(&self, _: &Game, _: Move) {}
}

#[derive(Clone, Debug)]
pub enum Tc {
    Infinite,
    MoveTime(u64),
    /// (wtime, btime, winc, binc, movestogo) in ms
    Clocks(Option<u64>, Option<u64>, Option<u64>, Option<u64>, Option<u32>),
}

impl Tc {
    pub fn to_engine(&self) -> TimeControl {
        let d = |x: &Option<u64>| x.map(Duration::from_millis);
        match self {
            Tc::Infinite => TimeControl::Infinite,
            Tc::MoveTime(ms) => TimeControl::ExactTime(Duration::from_millis(*ms)),
            Tc::Clocks(w, b, wi, bi, mtg) => TimeControl::Clocks(Clocks { white_clock: d(w), black_clock: d(b), white_increment: d(wi), black_increment: d(bi), moves_to_go: *mtg }),
        }
    }
    pub fn text(&self) -> String {
        match self {
            Tc::Infinite => "infinite".into(),
            Tc::MoveTime(ms) => format!("movetime {ms}"),
            Tc::Clocks(w, b, wi, bi, mtg) => format!("wtime {w:?} btime {b:?} winc {wi:?} binc {bi:?} movestogo {mtg:?}"),
        }
    }
}

#[derive(Clone, Debug)]
pub enum Env {
    /// flag never set, real clock
    Default,
    /// flag reads true from the k-th poll on (1-based)
    StopAtPoll(u64),
    /// virtual clock
    Clock(Clock),
    /// both seams
    StopAndClock(u64, Clock),
}

impl Env {
    pub fn text(&self) -> String {
        format!("{self:?}")
    }
}

#[derive(Clone, Debug)]
pub struct Spec {
    pub depth: Option<u8>,
    pub tc: Tc,
    pub overhead_ms: usize,
}

impl Spec {
    pub fn depth(d: u8) -> Spec {
        Spec { depth: Some(d), tc: Tc::Infinite, overhead_ms: 0 }
    }
    pub fn text(&self) -> String {
        format!("depth {:?} {} overhead {}", self.depth, self.tc.text(), self.overhead_ms)
    }
}

pub struct Outcome {
    pub best: Result<Move, String>,
    pub infos: Vec<InfoRec>,
    pub pvs: Vec<Vec<Move>>,
    pub polls: u64,
    pub first_true_poll: Option<u64>,
    pub polls_after_true: u64,
    pub nodes_max: u64,
    pub nodes_at_first_true: Option<u64>,
    pub calls_after_true: u64,
    pub clock_reads: u64,
    pub clock_ns: u64,
}

pub const DEFAULT_NODE_BUDGET: u64 = 60_000_000;

/// Run one search with the given environment on `ps`.
pub fn run_search(ps: &mut PersistentState, game: &Game, spec: &Spec, env: &Env, node_budget: u64) -> Outcome {
    vh::reset();
    vh::with(|s| {
        s.node_budget = Some(node_budget);
        match env {
            Env::Default => {}
            Env::StopAtPoll(k) => s.stop_at_poll = Some(*k),
            Env::Clock(c) => s.clock = Some(c.clone()),
            Env::StopAndClock(k, c) => {
                s.stop_at_poll = Some(*k);
                s.clock = Some(c.clone());
            }
        }
        // without a stop script the flag seam still counts polls and answers "not stopped"
        if s.stop_at_poll.is_none() {
            s.stop_at_poll = Some(u64::MAX);
        }
    });
    let options = EngineOptions { move_overhead: spec.overhead_ms, ..EngineOptions::default() };
    let tc = spec.tc.to_engine();
    let restrictions = SearchRestrictions { depth: spec.depth };
    let mut rec = Recorder { infos: vec![], pvs: vec![] };
    let best = catch(|| {
        let (mut ts, _control) = TimeStrategy::new(game, &tc, &options);
        search::search(game, ps, &mut ts, &restrictions, &options, &mut rec)
    });
    let o = vh::with(|s| Outcome {
        best,
        infos: std::mem::take(&mut rec.infos),
        pvs: std::mem::take(&mut rec.pvs),
        polls: s.polls,
        first_true_poll: s.first_true_poll,
        polls_after_true: s.polls_after_true,
        nodes_max: s.nodes_max,
        nodes_at_first_true: s.nodes_at_first_true,
        calls_after_true: s.calls_after_true,
        clock_reads: s.clock_reads,
        clock_ns: match &s.clock {
            Some(Clock::PerNode(per)) => s.nodes_max * per + s.clock_reads,
            _ => s.clock_ns,
        },
    });
    vh::reset();
    o
}

/// C08 monitor: every info line of one search. Returns violation texts (kind, detail).
pub fn check_infos(root: &Pos, spec: &Spec, infos: &[InfoRec], pvs: &[Vec<Move>]) -> Vec<(String, String)> {
    let mut out = vec![];
    let mut expect_depth = 1u8;
    for (i, info) in infos.iter().enumerate() {
        if info.depth != expect_depth {
            out.push(("info-depth-sequence".to_string(), format!("info line {} reports depth {} where {} was expected (depths must increase one by one)", i + 1, info.depth, expect_depth)));
        }
        expect_depth = info.depth.saturating_add(1);
        if let Some(limit) = spec.depth {
            if info.depth > limit {
                out.push(("info-depth-over-limit".to_string(), format!("reported depth {} exceeds the requested limit {}", info.depth, limit)));
            }
        }
        let pv = &pvs[i];
        if pv.is_empty() {
            out.push(("pv-empty".to_string(), format!("depth {}: empty principal variation", info.depth)));
            continue;
        }
        // replay on the reference model
        let mut p = root.clone();
        let mut ok = true;
        for (j, m) in pv.iter().enumerate() {
            let r = eng::move_from_eng(*m);
            let legal = p.legal_moves();
            match legal.iter().find(|x| x.from == r.from && x.to == r.to && x.promo == r.promo) {
                Some(rm) => p = p.apply(rm),
                None => {
                    out.push(("pv-illegal-move".to_string(), format!("depth {}: move {} ({:?}) of the line [{}] is not legal in {}", info.depth, j + 1, m, info.pv.join(" "), p.to_fen())));
                    ok = false;
                    break;
                }
            }
        }
        if !ok {
            continue;
        }
        if info.score.0 {
            let n = info.score.1;
            if n == 0 {
                out.push(("mate-zero".to_string(), format!("depth {}: mate in 0 announced", info.depth)));
            } else if n > 0 {
                let want = 2 * (n as usize) - 1;
                if pv.len() != want || !p.is_checkmate() || p.side == root.side {
                    out.push((
                        "mate-announcement".to_string(),
                        format!("depth {}: mate in {} announced, line [{}] has {} plies (expected {}) and ends in {} (checkmate of the opponent: {})", info.depth, n, info.pv.join(" "), pv.len(), want, p.to_fen(), p.is_checkmate() && p.side != root.side),
                    ));
                }
            } else {
                let want = 2 * (n.unsigned_abs() as usize);
                if pv.len() != want || !p.is_checkmate() || p.side != root.side {
                    out.push((
                        "mate-announcement".to_string(),
                        format!("depth {}: mated in {} announced, line [{}] has {} plies (expected {}) and ends in {} (own side checkmated: {})", info.depth, -n, info.pv.join(" "), pv.len(), want, p.to_fen(), p.is_checkmate() && p.side == root.side),
                    ));
                }
            }
        }
    }
    out
}

/// C04 oracle for the returned move.
pub fn best_is_legal(root: &Pos, best: &Result<Move, String>) -> Result<RMove, String> {
    match best {
        Err(e) => Err(format!("search panicked: {e}")),
        Ok(m) => {
            let r = eng::move_from_eng(*m);
            root.legal_moves().into_iter().find(|x| x.from == r.from && x.to == r.to && x.promo == r.promo).ok_or(format!("returned move {m:?} is not legal in {}", root.to_fen()))
        }
    }
}

/// A game given as base FEN + moves (so that the engine's game has a history).
#[derive(Clone, Debug)]
pub struct GameSpec {
    pub fen: String,
    pub moves: Vec<String>,
}

impl GameSpec {
    pub fn fen(f: &str) -> GameSpec {
        GameSpec { fen: f.to_string(), moves: vec![] }
    }
    pub fn build(&self) -> Result<(Game, Pos), String> {
        let mut p = Pos::from_fen(&self.fen)?;
        let mut g = Game::from_fen(&self.fen)?;
        for m in &self.moves {
            let rm = p.legal_moves().into_iter().find(|x| x.uci() == *m).ok_or(format!("{m} not legal"))?;
            let em = g.moves().iter().copied().find(|x| format!("{x:?}") == *m).ok_or(format!("{m} not generated"))?;
            g.make_move(em);
            p = p.apply(&rm);
        }
        Ok((g, p))
    }
    pub fn json(&self) -> J {
        J::obj(vec![("fen", J::s(self.fen.clone())), ("moves", J::Arr(self.moves.iter().map(|m| J::s(m.clone())).collect()))])
    }
    pub fn from_json(j: &J) -> Option<GameSpec> {
        Some(GameSpec { fen: j.get("fen")?.as_str()?.to_string(), moves: j.get("moves")?.as_arr()?.iter().filter_map(|x| x.as_str().map(|s| s.to_string())).collect() })
    }
    pub fn key(&self) -> String {
        if self.moves.is_empty() {
            self.fen.clone()
        } else {
            format!("{} moves {}", self.fen, self.moves.join(" "))
        }
    }
}

pub fn spec_json(s: &Spec) -> J {
    let (kind, a): (&str, Vec<J>) = match &s.tc {
        Tc::Infinite => ("infinite", vec![]),
        Tc::MoveTime(ms) => ("movetime", vec![J::i(*ms)]),
        Tc::Clocks(w, b, wi, bi, mtg) => ("clocks", vec![w.map(J::i).unwrap_or(J::Null), b.map(J::i).unwrap_or(J::Null), wi.map(J::i).unwrap_or(J::Null), bi.map(J::i).unwrap_or(J::Null), mtg.map(J::i).unwrap_or(J::Null)]),
    };
    J::obj(vec![("depth", s.depth.map(J::i).unwrap_or(J::Null)), ("tc", J::s(kind)), ("tc_args", J::Arr(a)), ("overhead_ms", J::i(s.overhead_ms as i64))])
}

pub fn spec_from_json(j: &J) -> Spec {
    let depth = j.get("depth").and_then(|x| x.as_i64()).map(|d| d as u8);
    let args: Vec<Option<u64>> = j.get("tc_args").and_then(|x| x.as_arr()).map(|a| a.iter().map(|x| x.as_i64().map(|v| v as u64)).collect()).unwrap_or_default();
    let tc = match j.get("tc").and_then(|x| x.as_str()) {
        Some("movetime") => Tc::MoveTime(args.first().copied().flatten().unwrap_or(0)),
        Some("clocks") => Tc::Clocks(args[0], args[1], args[2], args[3], args[4].map(|x| x as u32)),
        _ => Tc::Infinite,
    };
    Spec { depth, tc, overhead_ms: j.get("overhead_ms").and_then(|x| x.as_i64()).unwrap_or(0) as usize }
}

pub fn env_json(e: &Env) -> J {
    let cj = |c: &Clock| match c {
        Clock::Frozen => J::obj(vec![("clock", J::s("frozen"))]),
        Clock::StepPerRead(d) => J::obj(vec![("clock", J::s("step")), ("ns", J::i(*d))]),
        Clock::ExpireAtRead(r) => J::obj(vec![("clock", J::s("expire")), ("read", J::i(*r))]),
        Clock::PerNode(n) => J::obj(vec![("clock", J::s("pernode")), ("ns", J::i(*n))]),
    };
    match e {
        Env::Default => J::obj(vec![("env", J::s("default"))]),
        Env::StopAtPoll(k) => J::obj(vec![("env", J::s("stop")), ("poll", J::i(*k))]),
        Env::Clock(c) => J::obj(vec![("env", J::s("clock")), ("c", cj(c))]),
        Env::StopAndClock(k, c) => J::obj(vec![("env", J::s("stop+clock")), ("poll", J::i(*k)), ("c", cj(c))]),
    }
}

pub fn env_from_json(j: &J) -> Env {
    let clock = |c: &J| match c.get("clock").and_then(|x| x.as_str()) {
        Some("step") => Clock::StepPerRead(c.get("ns").and_then(|x| x.as_i64()).unwrap_or(0) as u64),
        Some("expire") => Clock::ExpireAtRead(c.get("read").and_then(|x| x.as_i64()).unwrap_or(1) as u64),
        Some("pernode") => Clock::PerNode(c.get("ns").and_then(|x| x.as_i64()).unwrap_or(1000) as u64),
        _ => Clock::Frozen,
    };
    match j.get("env").and_then(|x| x.as_str()) {
        Some("stop") => Env::StopAtPoll(j.get("poll").and_then(|x| x.as_i64()).unwrap_or(1) as u64),
        Some("clock") => Env::Clock(clock(j.get("c").unwrap_or(&J::Null))),
        Some("stop+clock") => Env::StopAndClock(j.get("poll").and_then(|x| x.as_i64()).unwrap_or(1) as u64, clock(j.get("c").unwrap_or(&J::Null))),
        _ => Env::Default,
    }
}
