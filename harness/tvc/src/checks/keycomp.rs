//! C03(c): all 838 key components, recovered through the public API only, are pairwise distinct and
//! non-zero (838^2 pairs, exhaustive).

use crate::chess::board::Board;
use crate::chess::game::{CastleRights, Game};
use crate::chess::piece::{Piece, PieceKind};
use crate::chess::player::{ByPlayer, Player};
use crate::chess::square::Square;
use crate::chess::zobrist;
use crate::report::Run;
use crate::util::J;

fn game(squares: [Option<Piece>; 64], player: Player, rights: [bool; 4], ep: Option<Square>) -> Game {
    let board = Board::try_from(squares).unwrap();
    let r = ByPlayer::new(CastleRights { king_side: rights[0], queen_side: rights[1] }, CastleRights { king_side: rights[2], queen_side: rights[3] });
    Game::from_state(board, player, r, ep, 0, 0)
}

pub fn check(run: &Run) -> (u64, u64) {
    let empty = [None; 64];
    let base = zobrist::hash(&game(empty, Player::White, [false; 4], None)).0; // = the no-en-passant word
    let mut comps: Vec<(String, u64)> = vec![("no-ep".into(), base)];
    for player in [Player::White, Player::Black] {
        for kind in PieceKind::ALL {
            for s in 0..64u8 {
                let mut sq = empty;
                sq[s as usize] = Some(Piece::new(player, kind));
                let h = zobrist::hash(&game(sq, Player::White, [false; 4], None)).0 ^ base;
                comps.push((format!("{player:?}-{kind:?}-{}", Square::from_index(s)), h));
            }
        }
    }
    for i in 0..4 {
        let mut r = [false; 4];
        r[i] = true;
        comps.push((format!("castle-{i}"), zobrist::hash(&game(empty, Player::White, r, None)).0 ^ base));
    }
    for s in 0..64u8 {
        comps.push((format!("ep-{}", Square::from_index(s)), zobrist::hash(&game(empty, Player::White, [false; 4], Some(Square::from_index(s)))).0));
    }
    comps.push(("side".into(), zobrist::hash(&game(empty, Player::Black, [false; 4], None)).0 ^ base));
    if comps.len() != 838 {
        run.machinery_error(format!("expected 838 key components, recovered {}", comps.len()));
    }
    let mut pairs = 0u64;
    for (i, (n, v)) in comps.iter().enumerate() {
        if *v == 0 {
            run.violation("key-component-zero", format!("key-component-zero|{n}"), J::obj(vec![("kind", J::s("keycomp")), ("component", J::s(n.clone()))]), format!("key component {n} is zero"));
        }
        for (m, w) in comps.iter().skip(i + 1) {
            pairs += 1;
            if v == w {
                run.violation("key-components-equal", format!("key-components-equal|{n}|{m}"), J::obj(vec![("kind", J::s("keycomp")), ("component", J::s(n.clone())), ("other", J::s(m.clone()))]), format!("key components {n} and {m} are equal ({v:#018x})"));
            }
        }
    }
    run.family("KEY-COMPONENTS", "838 components recovered through Game::from_state + zobrist::hash, all pairs", comps.len() as u64, pairs, true, "");
    run.count("key_components", comps.len() as u64);
    (comps.len() as u64, pairs)
}
