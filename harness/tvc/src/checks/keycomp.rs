//! C03(c): all 838 key components, recovered through the public API only, are pairwise distinct and
//! non-zero (838^2 pairs, exhaustive).

use crate::chess::board::Board;
use crate::chess::game::{CastleRights, Game};
use crate::chess::piece::{Piece, PieceKind};
use crate::chess::player::{ByPlayer, Player};
use crate::chess::square::Square;
use crate::chess::zobrist;
use crate::report::Run;
use crate::util::J;

fn game(squares: [Option<Piece>; 64], player: Player, rights: [bool; 4], ep: Option<Square>) -> Game {
    let board = Board::try_from(squares).unwrap();
    let r = ByPlayer::new(CastleRights { king_side: rights[0], queen_side: rights[1] }, CastleRights { king_side: rights[2], queen_side: rights[3] });
    Game::from_state(board, player, r, ep, 0, 0)
}

pub fn check(run: &Run) -> (u64, u64) {
    let empty = [None; 64];
    let base = zobrist::hash(&game(empty, Player::White, [false; 4], None)).0; // = the no-en-passant word
    let mut comps: Vec<(String, u64)> = vec![("no-ep".into(), base)];
    for player in [Player::White, Player::Black] {
        for kind in PieceKind::ALL {
            for s in 0..64u8 {
                let mut sq = empty;
                sq[s as usize] = Some(Piece::new(player, kind));
                let h = zobrist::hash(&game(sq, Player::White, [false; 4], None)).0 ^ base;
                comps.push((format!("{player:?}-{kind:?}-{}", Square::from_index(s)), h));
            }
        }
    }
    for i in 0..4 {
        let mut r = [false; 4];
        r[i] = true;
        comps.push((format!("castle-{i}"), zobrist::hash(&game(empty, Player::White, r, None)).0 ^ base));
    }
    // en-passant components. The 16 targets that occur in legal positions (third and sixth rank) are read from a
    // genuine en-passant situation (pushed pawn, capturer beside it, both kings) as key(with target) ^ key(without)
    // ^ no-en-passant word. The other 48 are never used by a legal position; they are read on an empty board where
    // the constructor allows it, and count as unreadable (no verdict) if the implementation normalises such a
    // target away or refuses it.
    let mut unreadable = 0u64;
    for s in 0..64u8 {
        let (f, r) = (s % 8, s / 8);
        if r == 2 || r == 5 {
            let white_captures = r == 5;
            let mut sq = empty;
            let prank = if white_captures { 4 } else { 3 };
            let cf = if f > 0 { f - 1 } else { f + 1 };
            sq[(prank * 8 + f) as usize] = Some(Piece::new(if white_captures { Player::Black } else { Player::White }, PieceKind::Pawn));
            sq[(prank * 8 + cf) as usize] = Some(Piece::new(if white_captures { Player::White } else { Player::Black }, PieceKind::Pawn));
            sq[0] = Some(Piece::new(Player::White, PieceKind::King));
            sq[63] = Some(Piece::new(Player::Black, PieceKind::King));
            let side_to_move = if white_captures { Player::White } else { Player::Black };
            let r2 = crate::util::catch(|| (zobrist::hash(&game(sq, side_to_move, [false; 4], Some(Square::from_index(s)))).0, zobrist::hash(&game(sq, side_to_move, [false; 4], None)).0));
            match r2 {
                Ok((with, without)) => comps.push((format!("ep-{}", Square::from_index(s)), with ^ without ^ base)),
                Err(e) => run.machinery_error(format!("en-passant component of {} cannot be read from a legal en-passant position: {e}", Square::from_index(s))),
            }
        } else {
            match crate::util::catch(|| zobrist::hash(&game(empty, Player::White, [false; 4], Some(Square::from_index(s)))).0) {
                Ok(h) if h != base => comps.push((format!("ep-{}", Square::from_index(s)), h)),
                _ => unreadable += 1,
            }
        }
    }
    run.count("key_components_unreadable_outside_legal_positions", unreadable);
    let side = zobrist::hash(&game(empty, Player::Black, [false; 4], None)).0 ^ base;
    comps.push(("side".into(), side));
    if comps.len() as u64 + unreadable != 838 {
        run.machinery_error(format!("expected 838 key components, recovered {}", comps.len()));
    }
    let mut pairs = 0u64;
    for (i, (n, v)) in comps.iter().enumerate() {
        if *v == 0 {
            run.violation("key-component-zero", format!("key-component-zero|{n}"), J::obj(vec![("kind", J::s("keycomp")), ("component", J::s(n.clone()))]), format!("key component {n} is zero"));
        }
        for (m, w) in comps.iter().skip(i + 1) {
            pairs += 1;
            if v == w {
                run.violation("key-components-equal", format!("key-components-equal|{n}|{m}"), J::obj(vec![("kind", J::s("keycomp")), ("component", J::s(n.clone())), ("other", J::s(m.clone()))]), format!("key components {n} and {m} are equal ({v:#018x})"));
            }
        }
    }
    run.family("KEY-COMPONENTS", "838 components recovered through Game::from_state + zobrist::hash, all pairs", comps.len() as u64, pairs, true, "");
    run.count("key_components", comps.len() as u64);
    (comps.len() as u64, pairs)
}
