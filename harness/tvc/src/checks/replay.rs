//! `tvc replay <file>`: re-execute one stored case without the explorer.

use crate::monitors::{self as mo, Ctx, KeyMap, Mon, Origin};
use crate::report::Run;
use crate::util::J;

pub fn replay(path: &str) -> i32 {
    let text = match std::fs::read_to_string(path) {
        Ok(t) => t,
        Err(e) => {
            eprintln!("cannot read {path}: {e}");
            return 2;
        }
    };
    let j = match J::parse(&text) {
        Ok(j) => j,
        Err(e) => {
            eprintln!("bad replay file: {e}");
            return 2;
        }
    };
    let prop = j.get("property").and_then(|x| x.as_str()).unwrap_or("?").to_string();
    let case = j.get("case").cloned().unwrap_or(J::Null);
    let kind = case.get("kind").and_then(|x| x.as_str()).unwrap_or("?").to_string();
    println!("replaying {prop} case kind={kind}");
    *crate::util::PROCESS_INFO.lock().unwrap() = (prop.clone(), "replay".to_string());
    println!("stored detail: {}", j.get("detail").and_then(|x| x.as_str()).unwrap_or(""));
    let run: &'static Run = Box::leak(Box::new(Run::new(&prop, "quick", 0)));
    match kind.as_str() {
        "position" => {
            let origin = match case.get("origin").ok_or("no origin".to_string()).and_then(Origin::from_json) {
                Ok(o) => o,
                Err(e) => {
                    eprintln!("bad origin: {e}");
                    return 2;
                }
            };
            let (g, p) = match origin.rebuild() {
                Ok(x) => x,
                Err(e) => {
                    println!("rebuild failed: {e}");
                    return 1;
                }
            };
            println!("position: {}", g.to_fen());
            let keymap = KeyMap::new();
            let ctx = Ctx { fen_crosscheck: std::sync::atomic::AtomicBool::new(true), run, mon: Mon::for_prop(&prop), keymap: &keymap, see_values: mo::probe_see_values() };
            let mut c = mo::Counts::new();
            let pairs = mo::check_state(&ctx, &p, &g, &origin, &mut c);
            if ctx.mon.needs_transitions() {
                let before = mo::snapshot(&g);
                for (em, rm) in pairs {
                    mo::check_transition(&ctx, &p, &g, &origin, em, &rm, &before, &mut c);
                }
            }
        }
        other => {
            if let Some(code) = crate::checks::replay_other(run, other, &case) {
                if code != 0 {
                    return code;
                }
            } else {
                eprintln!("unknown case kind {other}");
                return 2;
            }
        }
    }
    let v = run.violations.lock().unwrap();
    if v.is_empty() {
        println!("replay: no violation observed");
        0
    } else {
        for x in v.iter() {
            println!("replay: VIOLATION [{}] {}", x.kind, x.detail);
        }
        1
    }
}
