//! C07: attack tables equal first-principles geometry. Complete enumeration: for each square every
//! subset of the (independently recomputed) relevant blocker mask, plus occupancies that differ only
//! in irrelevant bits; leapers, pawns and the squares-between table for all arguments.

use crate::chess::bitboard::Bitboard;
use crate::chess::movegen::tables;
use crate::chess::player::Player;
use crate::chess::square::Square;
use crate::report::{self, Run};
use crate::util::{catch, par_for, J};
use std::sync::atomic::{AtomicU64, Ordering};

fn on(f: i32, r: i32) -> bool {
    (0..8).contains(&f) && (0..8).contains(&r)
}
fn bit(f: i32, r: i32) -> u64 {
    1u64 << (r * 8 + f)
}

const ROOK_D: [(i32, i32); 4] = [(1, 0), (-1, 0), (0, 1), (0, -1)];
const BISHOP_D: [(i32, i32); 4] = [(1, 1), (-1, 1), (1, -1), (-1, -1)];

/// Ray walk: squares attacked from `s` with blockers `occ` (first blocker included).
fn ray_attacks(s: u8, occ: u64, dirs: &[(i32, i32); 4]) -> u64 {
    let (f0, r0) = ((s % 8) as i32, (s / 8) as i32);
    let mut a = 0u64;
    for (df, dr) in dirs {
        let (mut f, mut r) = (f0 + df, r0 + dr);
        while on(f, r) {
            a |= bit(f, r);
            if occ & bit(f, r) != 0 {
                break;
            }
            f += df;
            r += dr;
        }
    }
    a
}

/// Relevant blocker mask from geometry: ray squares excluding the last square of each ray.
fn relevant_mask(s: u8, dirs: &[(i32, i32); 4]) -> u64 {
    let (f0, r0) = ((s % 8) as i32, (s / 8) as i32);
    let mut m = 0u64;
    for (df, dr) in dirs {
        let (mut f, mut r) = (f0 + df, r0 + dr);
        while on(f + df, r + dr) {
            m |= bit(f, r);
            f += df;
            r += dr;
        }
    }
    m
}

pub fn run(run: &Run) -> i32 {
    let (a, b) = check_all(run);
    report::finish(run, a, b, "all 107,648 (square, relevant-blocker subset) cases per the property, each with every single irrelevant bit, all irrelevant bits and the piece's own square added; every lookup index checked against the table length through hook H3", true)
}

/// The complete enumeration (one second): used by the check and by replays of leaper / between cases.
fn check_all(run: &Run) -> (u64, u64) {
    let lookups = AtomicU64::new(0);
    let subsets = AtomicU64::new(0);
    let table_len = tables::verif_table_len();
    // sliders: 64 squares x 2 kinds, one shard each
    par_for(128, |i| {
        let s = (i % 64) as u8;
        let rook = i >= 64;
        let dirs = if rook { &ROOK_D } else { &BISHOP_D };
        let mask = relevant_mask(s, dirs);
        let irrelevant: Vec<u64> = (0..64).map(|b| 1u64 << b).filter(|b| mask & b == 0 && *b != (1u64 << s)).collect();
        let sq = Square::from_index(s);
        let (mut n_lookups, mut n_subsets) = (0u64, 0u64);
        let mut sub = 0u64;
        loop {
            n_subsets += 1;
            let want = ray_attacks(s, sub, dirs);
            // the subset itself, each single irrelevant bit added, all irrelevant bits added, own square added
            let all_irrelevant: u64 = irrelevant.iter().fold(0, |a, b| a | b);
            let mut variants: Vec<u64> = vec![sub, sub | all_irrelevant, sub | (1u64 << s), sub | all_irrelevant | (1u64 << s)];
            variants.extend(irrelevant.iter().map(|b| sub | b));
            for occ in variants {
                n_lookups += 1;
                let idx = if rook { tables::verif_table_index_rook(sq, Bitboard::new(occ)) } else { tables::verif_table_index_bishop(sq, Bitboard::new(occ)) };
                let kind = if rook { "rook" } else { "bishop" };
                if idx >= table_len {
                    run.violation(
                        "table-index-out-of-range",
                        format!("table-index|{kind}|{sq}|{occ:#x}"),
                        J::obj(vec![("kind", J::s("slider")), ("piece", J::s(kind)), ("square", J::i(s)), ("occupancy", J::s(format!("{occ:#018x}")))]),
                        format!("{kind} lookup on {sq} with occupancy {occ:#018x} lands at index {idx} of a table of {table_len}"),
                    );
                    continue;
                }
                // an occupancy differing only in irrelevant bits must give the attack set of the ray walk
                // on the full occupancy (which equals the walk on the relevant subset)
                let want_full = ray_attacks(s, occ, dirs);
                let got = if rook { tables::rook_attacks(sq, Bitboard::new(occ)) } else { tables::bishop_attacks(sq, Bitboard::new(occ)) }.as_u64();
                run.distinct_outcome_sig(got ^ if rook { 0x5555 } else { 0 }, || format!("{kind} attack set {got:#018x}"));
                if got != want_full || want_full != want {
                    run.violation(
                        "slider-attacks",
                        format!("slider|{kind}|{sq}|{occ:#x}"),
                        J::obj(vec![("kind", J::s("slider")), ("piece", J::s(kind)), ("square", J::i(s)), ("occupancy", J::s(format!("{occ:#018x}")))]),
                        format!("{kind} on {sq}, occupancy {occ:#018x}: table {got:#018x}, ray walk {want_full:#018x}"),
                    );
                }
            }
            sub = sub.wrapping_sub(mask) & mask;
            if sub == 0 {
                break;
            }
        }
        lookups.fetch_add(n_lookups, Ordering::Relaxed);
        subsets.fetch_add(n_subsets, Ordering::Relaxed);
    });
    let n_sub = subsets.load(Ordering::Relaxed);
    run.family("SLIDERS", "64 squares x {rook, bishop} x every subset of the relevant blocker mask (mask recomputed from geometry) x (1 + irrelevant-bit variants)", n_sub, lookups.load(Ordering::Relaxed), true, "");
    if n_sub != 107_648 {
        run.machinery_error(format!("expected 107648 relevant-blocker subsets, enumerated {n_sub}"));
    }
    // leapers, pawns, between
    let mut other = 0u64;
    for s in 0..64u8 {
        let (f0, r0) = ((s % 8) as i32, (s / 8) as i32);
        let sq = Square::from_index(s);
        let mut kn = 0u64;
        for (df, dr) in [(1, 2), (2, 1), (2, -1), (1, -2), (-1, -2), (-2, -1), (-2, 1), (-1, 2)] {
            if on(f0 + df, r0 + dr) {
                kn |= bit(f0 + df, r0 + dr);
            }
        }
        let mut kg = 0u64;
        for df in -1..=1 {
            for dr in -1..=1 {
                if (df, dr) != (0, 0) && on(f0 + df, r0 + dr) {
                    kg |= bit(f0 + df, r0 + dr);
                }
            }
        }
        let mut pw = [0u64; 2];
        for (i, dr) in [(0usize, 1), (1usize, -1)] {
            for df in [-1, 1] {
                if on(f0 + df, r0 + dr) {
                    pw[i] |= bit(f0 + df, r0 + dr);
                }
            }
        }
        let checks: [(&str, u64, u64); 4] = [
            ("knight", tables::knight_attacks(sq).as_u64(), kn),
            ("king", tables::king_attacks(sq).as_u64(), kg),
            ("white-pawn", tables::pawn_attacks(sq, Player::White).as_u64(), pw[0]),
            ("black-pawn", tables::pawn_attacks(sq, Player::Black).as_u64(), pw[1]),
        ];
        for (name, got, want) in checks {
            other += 1;
            if got != want {
                run.violation(
                    "leaper-attacks",
                    format!("leaper|{name}|{sq}"),
                    J::obj(vec![("kind", J::s("leaper")), ("piece", J::s(name)), ("square", J::i(s))]),
                    format!("{name} attacks from {sq}: table {got:#018x}, geometry {want:#018x}"),
                );
            }
        }
        for t in 0..64u8 {
            other += 1;
            let (f1, r1) = ((t % 8) as i32, (t / 8) as i32);
            let (df, dr) = (f1 - f0, r1 - r0);
            let mut want = 0u64;
            if s != t && (df == 0 || dr == 0 || df.abs() == dr.abs()) {
                let (sf, sr) = (df.signum(), dr.signum());
                let (mut f, mut r) = (f0 + sf, r0 + sr);
                while (f, r) != (f1, r1) {
                    want |= bit(f, r);
                    f += sf;
                    r += sr;
                }
            }
            match catch(|| tables::between(sq, Square::from_index(t)).as_u64()) {
                Ok(got) if got != want => run.violation(
                    "between",
                    format!("between|{sq}|{}", Square::from_index(t)),
                    J::obj(vec![("kind", J::s("between")), ("a", J::i(s)), ("b", J::i(t))]),
                    format!("between({sq}, {}) = {got:#018x}, geometry {want:#018x}", Square::from_index(t)),
                ),
                Err(e) => run.violation("between-panic", format!("between-panic|{s}|{t}"), J::obj(vec![("kind", J::s("between")), ("a", J::i(s)), ("b", J::i(t))]), e),
                _ => {}
            }
        }
    }
    run.family("LEAPERS-PAWNS-BETWEEN", "knight, king for 64 squares; pawn attacks for 2 x 64; between for 64 x 64", other, other, true, "");
    run.sample(J::obj(vec![("piece", J::s("rook")), ("square", J::s("d4")), ("occupancy", J::s("0x0000000800001400")), ("expected", J::s(format!("{:#018x}", ray_attacks(27, 0x0000000800001400, &ROOK_D))))]));
    run.sample(J::obj(vec![("between", J::s("a1,h8")), ("expected", J::s("0x0040201008040200"))]));
    run.count("table_len", table_len as u64);
    run.assume("oracle: coordinate-loop ray walks and offset lists written in the harness; the relevant blocker masks are recomputed from geometry, not read from the engine");
    (n_sub + other, lookups.load(Ordering::Relaxed) + other)
}

pub fn replay(run: &Run, case: &J) -> i32 {
    let kind = case.get("kind").and_then(|x| x.as_str()).unwrap_or("");
    match kind {
        "slider" => {
            let s = case.get("square").and_then(|x| x.as_i64()).unwrap_or(0) as u8;
            let occ = u64::from_str_radix(case.get("occupancy").and_then(|x| x.as_str()).unwrap_or("0x0").trim_start_matches("0x"), 16).unwrap_or(0);
            let rook = case.get("piece").and_then(|x| x.as_str()) == Some("rook");
            let dirs = if rook { &ROOK_D } else { &BISHOP_D };
            let sq = Square::from_index(s);
            let idx = if rook { tables::verif_table_index_rook(sq, Bitboard::new(occ)) } else { tables::verif_table_index_bishop(sq, Bitboard::new(occ)) };
            println!("index {idx} of {}", tables::verif_table_len());
            if idx >= tables::verif_table_len() {
                run.violation("table-index-out-of-range", String::new(), J::Null, format!("index {idx} out of range"));
                return 0;
            }
            let got = if rook { tables::rook_attacks(sq, Bitboard::new(occ)) } else { tables::bishop_attacks(sq, Bitboard::new(occ)) }.as_u64();
            let want = ray_attacks(s, occ, dirs);
            println!("table {got:#018x} ray walk {want:#018x}");
            if got != want {
                run.violation("slider-attacks", String::new(), J::Null, format!("table {got:#018x} != ray walk {want:#018x}"));
            }
            0
        }
        _ => {
            println!("re-running the complete C07 enumeration (1 s) for a {kind} case");
            check_all(run);
            0
        }
    }
}
