//! C16, the blend itself: PhasedEval::new(mg, eg).for_phase(p) lies between mg and eg for every
//! lattice triple, never panics; pack/unpack round trip.

use crate::engine::eval::PhasedEval;
use crate::report::Run;
use crate::util::{catch, par_for, J};
use std::sync::atomic::{AtomicU64, Ordering};

fn check_one(run: &Run, mg: i16, eg: i16, phase: i16) {
    match catch(|| PhasedEval::new(mg, eg).for_phase(phase)) {
        Err(e) => run.violation("blend-panic", format!("blend|{mg}|{eg}|{phase}"), J::obj(vec![("kind", J::s("blend")), ("mg", J::i(mg)), ("eg", J::i(eg)), ("phase", J::i(phase))]), format!("for_phase panicked for ({mg}, {eg}, phase {phase}): {e}")),
        Ok(v) => {
            let (lo, hi) = (mg.min(eg), mg.max(eg));
            if v.0 < lo || v.0 > hi {
                run.violation(
                    "blend-outside",
                    format!("blend|{mg}|{eg}|{phase}"),
                    J::obj(vec![("kind", J::s("blend")), ("mg", J::i(mg)), ("eg", J::i(eg)), ("phase", J::i(phase))]),
                    format!("PhasedEval({mg}, {eg}).for_phase({phase}) = {} is outside [{lo}, {hi}]", v.0),
                );
            }
        }
    }
}

pub fn run(run: &Run) -> (u64, u64) {
    let n = AtomicU64::new(0);
    // stride-257 lattice over i16 x i16, all phases 0..=96
    let lattice: Vec<i16> = (-32767i32..=32767).step_by(257).map(|x| x as i16).chain([i16::MAX, -1, 0, 1]).collect();
    par_for(lattice.len(), |i| {
        let mg = lattice[i];
        let mut c = 0;
        for &eg in &lattice {
            for phase in 0..=96i16 {
                check_one(run, mg, eg, phase);
                c += 1;
            }
        }
        n.fetch_add(c, Ordering::Relaxed);
    });
    let a = n.load(Ordering::Relaxed);
    run.family("BLEND-LATTICE", "mg, eg on a stride-257 lattice of [-32767, 32767] (plus MAX, -1, 0, 1), phase 0..=96", a, a, true, "");
    // full square [-300, 300]^2, all phases
    let n2 = AtomicU64::new(0);
    par_for(601, |i| {
        let mg = i as i16 - 300;
        let mut c = 0;
        for eg in -300..=300i16 {
            for phase in 0..=96i16 {
                check_one(run, mg, eg, phase);
                c += 1;
            }
        }
        n2.fetch_add(c, Ordering::Relaxed);
    });
    let b = n2.load(Ordering::Relaxed);
    run.family("BLEND-SQUARE", "every (mg, eg) in [-300, 300]^2, phase 0..=96", b, b, true, "");
    // pack / unpack round trip: quick = lattice stride 17 in both, thorough = all 2^32 pairs
    let stride = if run.quick() { 17usize } else { 1 };
    let n3 = AtomicU64::new(0);
    let mgs: Vec<i32> = (-32767i32..=32767).step_by(stride).collect();
    par_for(mgs.len(), |i| {
        let mg = mgs[i] as i16;
        let mut c = 0u64;
        let mut eg = -32767i32;
        while eg <= i16::MAX as i32 {
            let p = PhasedEval::new(mg, eg as i16);
            if p.midgame().0 != mg || p.endgame().0 != eg as i16 {
                run.violation(
                    "pack-unpack",
                    format!("pack|{mg}|{eg}"),
                    J::obj(vec![("kind", J::s("pack")), ("mg", J::i(mg)), ("eg", J::i(eg))]),
                    format!("PhasedEval::new({mg}, {eg}) unpacks to ({}, {})", p.midgame().0, p.endgame().0),
                );
            }
            c += 1;
            eg += stride as i32;
        }
        n3.fetch_add(c, Ordering::Relaxed);
    });
    let c = n3.load(Ordering::Relaxed);
    run.family("PACK-UNPACK", &format!("(mg, eg) in [-32767, 32767]^2 with stride {stride} in both (i16::MIN is not a score: scores are negated freely)"), c, c, true, if stride == 1 { "all 2^32 pairs" } else { "" });
    run.sample(J::obj(vec![("blend", J::s("PhasedEval(-514, 20046).for_phase(31)"))]));
    (a + b + c, a + b + c)
}

pub fn replay(run: &Run, case: &J) {
    let g = |k: &str| case.get(k).and_then(|x| x.as_i64()).unwrap_or(0) as i16;
    match case.get("kind").and_then(|x| x.as_str()) {
        Some("blend") => check_one(run, g("mg"), g("eg"), g("phase")),
        _ => {
            let p = PhasedEval::new(g("mg"), g("eg"));
            println!("unpacks to ({}, {})", p.midgame().0, p.endgame().0);
            if p.midgame().0 != g("mg") || p.endgame().0 != g("eg") {
                run.violation("pack-unpack", String::new(), J::Null, "round trip fails".into());
            }
        }
    }
}
