//! Per-property entry points.

use crate::families;
use crate::monitors::{Ctx, KeyMap, Mon, Origin};
use crate::refchess::{Color, Kind};
use crate::report::{self, Run};
use crate::sweep::{self, SweepPlan};
use crate::util::J;

pub mod replay;
pub mod keycomp;
pub mod tables;
pub mod blend;
pub mod fenbad;
pub mod tt;
pub mod timealloc;
pub use replay::replay;

pub fn run_prop(prop: &str, tier: &str, seed: u64) -> i32 {
    run(prop, tier, seed)
}

pub fn run(prop: &str, tier: &str, seed: u64) -> i32 {
    // leaked on purpose: helper threads with a timeout need a 'static reference
    let run: &'static Run = Box::leak(Box::new(Run::new(prop, tier, seed)));
    *crate::util::PROCESS_INFO.lock().unwrap() = (prop.to_string(), tier.to_string());
    crate::report::nd_start(prop);
    match prop {
        "C01" => c01(run),
        "C02" | "C03" | "C15" => c02_c03_c15(run, prop),
        "C11" => c11(run),
        "C06" => c06(run),
        "C07" => tables::run(run),
        "C16" => c16(run),
        "C19" => c19(run),
        "C14" => c14(run),
        "C10" => c10(run),
        "C04" | "C08" => c04_c08(run, prop),
        "C09" => c09(run),
        "C12" => c12(run),
        "C13" => c13(run),
        "C17" => c17(run),
        "C18" | "C20" | "SWEEPALL" => generic_sweep(run, prop),
        _ => {
            eprintln!("unknown property {prop}");
            2
        }
    }
}

pub fn base_plan(quick: bool) -> SweepPlan {
    SweepPlan {
        reach_depth_small: if quick { 3 } else { 4 },
        reach_depth_big: if quick { 2 } else { 3 },
        mat1: sweep::men1(),
        mat2: vec![],
        ep_extra: vec![],
        ep_restrict_king: quick,
        ep_restrict_bk: false,
        castle_enemy: vec![],
        castle_blockers: vec![None],
        disamb: vec![],
        promo: false,
        heavy: None,
        rights: true,
        see_family: None,
        corner: vec![],
        skip_reach: false,
        absurd: false,
        ep_push: false,
    }
}

/// F-CORNER signatures: white king a1, black king h8 (or c3, next to the corner), three further men.
/// `n` = how many of the own x enemy-pair signatures (0 = all of them plus the two-own-men ones).
pub fn corner_sigs(n: usize) -> Vec<(u8, u8, Vec<families::Man>)> {
    let (w, b) = (Color::W, Color::B);
    let mut v: Vec<(u8, u8, Vec<families::Man>)> = vec![];
    let pairs = [(Kind::R, Kind::P), (Kind::Q, Kind::N), (Kind::B, Kind::P), (Kind::Q, Kind::P), (Kind::R, Kind::B), (Kind::N, Kind::P), (Kind::Q, Kind::R), (Kind::B, Kind::N), (Kind::R, Kind::N), (Kind::Q, Kind::B), (Kind::P, Kind::P), (Kind::R, Kind::R), (Kind::Q, Kind::Q), (Kind::B, Kind::B), (Kind::N, Kind::N)];
    let owns = [Kind::Q, Kind::R, Kind::P, Kind::B, Kind::N];
    // diagonal order through the (own, pair) table, so that a short prefix already mixes the kinds
    let mut k = 0;
    'outer: for d in 0..(owns.len() + pairs.len()) {
        for (i, own) in owns.iter().enumerate() {
            if d < i || d - i >= pairs.len() {
                continue;
            }
            let (x, y) = pairs[d - i];
            v.push((0, 63, vec![(w, *own), (b, x), (b, y)]));
            k += 1;
            if n > 0 && k >= n {
                break 'outer;
            }
        }
    }
    if n == 0 {
        for (a, c) in [(Kind::Q, Kind::P), (Kind::R, Kind::P), (Kind::B, Kind::N), (Kind::P, Kind::P), (Kind::R, Kind::R)] {
            for e in [Kind::Q, Kind::R, Kind::B, Kind::N, Kind::P] {
                v.push((0, 63, vec![(w, a), (w, c), (b, e)]));
            }
        }
        v.push((0, 18, vec![(w, Kind::Q), (b, Kind::R), (b, Kind::P)]));
        v.push((0, 18, vec![(w, Kind::N), (b, Kind::B), (b, Kind::P)]));
        v.push((0, 18, vec![(w, Kind::P), (b, Kind::P), (b, Kind::R)]));
    }
    v
}

pub fn ep_extras_all() -> Vec<Option<families::Man>> {
    let mut v: Vec<Option<families::Man>> = vec![None];
    for c in [Color::W, Color::B] {
        for k in [Kind::Q, Kind::R, Kind::B, Kind::N, Kind::P] {
            v.push(Some((c, k)));
        }
    }
    v
}

pub fn make_ctx<'a>(run: &'a Run, mon: Mon, keymap: &'a KeyMap) -> Ctx<'a> {
    Ctx { fen_crosscheck: std::sync::atomic::AtomicBool::new(false), run, mon, keymap, see_values: crate::monitors::probe_see_values() }
}

fn c01(run: &Run) -> i32 {
    let keymap = KeyMap::new();
    let ctx = make_ctx(run, Mon::for_prop("C01"), &keymap);
    let mut plan = base_plan(run.quick());
    plan.ep_extra = ep_extras_all();
    plan.castle_enemy = if run.quick() { vec![vec![Kind::Q], vec![Kind::R], vec![Kind::B], vec![Kind::N], vec![Kind::P]] } else {
        let ks = [Kind::Q, Kind::R, Kind::B, Kind::N, Kind::P];
        let mut v: Vec<Vec<Kind>> = ks.iter().map(|k| vec![*k]).collect();
        for (i, a) in ks.iter().enumerate() {
            for b in ks.iter().skip(i) {
                v.push(vec![*a, *b]);
            }
        }
        v
    };
    plan.castle_blockers = if run.quick() { vec![None] } else { vec![None, Some(Kind::N)] };
    plan.promo = true;
    plan.heavy = Some((9, 10, 10));
    if !run.quick() {
        plan.mat2 = sweep::men2_all();
    }
    plan.corner = corner_sigs(if run.quick() { 4 } else { 0 });
    let (s, t) = sweep::run_plan(&ctx, &plan);
    sweep::sample_states(run);
    for f in ["in_check", "double_check", "ep_capture_available", "ep_adjacent_but_illegal", "castling_available", "castling_right_but_unavailable", "promotion_while_in_check", "checkmate", "stalemate"] {
        run.require(f, 10);
    }
    run.assume("oracle: refchess (independent mailbox implementation of the FIDE rules, validated against published perft numbers at start-up)");
    run.assume("bounded: positions of the listed families only (see coverage.families); no symmetry reduction");
    report::finish(run, s, t.max(s), "every position of the listed families; engine move list (with flags) compared as a multiset with the reference legal moves, in-check verdict compared with the reference; distinct = positions are distinct by construction within a family (BFS de-duplication / odometer)", true)
}

fn generic_sweep(run: &Run, prop: &str) -> i32 {
    let keymap = KeyMap::new();
    let mon = Mon::for_prop(if prop == "SWEEPALL" { "ALL" } else { prop });
    let ctx = make_ctx(run, mon, &keymap);
    let mut plan = base_plan(run.quick());
    match prop {
        "C16" => {
            plan.heavy = Some(if run.quick() { (9, 10, 10) } else { (9, 10, 10) });
            plan.promo = true;
        }
        "C18" => {
            plan.promo = true;
            if !run.quick() {
                plan.heavy = Some((9, 10, 10));
            }
            plan.castle_enemy = vec![vec![Kind::Q], vec![Kind::R], vec![Kind::P]];
            // en passant with a slider of the capturing side behind the pawns: checks discovered by the removal
            plan.ep_extra = if run.quick() { vec![Some((Color::W, Kind::Q))] } else { vec![None, Some((Color::W, Kind::Q)), Some((Color::W, Kind::R)), Some((Color::W, Kind::B))] };
            plan.ep_restrict_king = true;
            plan.ep_restrict_bk = run.quick();
            plan.disamb = vec![(Kind::N, 2, None), (Kind::R, 2, None), (Kind::B, 2, None), (Kind::Q, 2, None), (Kind::N, 2, Some(Kind::P)), (Kind::Q, 2, Some(Kind::R))];
            if !run.quick() {
                plan.disamb.extend([(Kind::N, 3, None), (Kind::Q, 3, None), (Kind::R, 3, None), (Kind::B, 3, None)]);
            }
        }
        "C20" => {
            plan.see_family = Some(if run.quick() { 3 } else { 4 });
            plan.heavy = Some((9, 10, 10));
            // positions with an en-passant target in which OTHER captures are judged (sliders crossing the passed square)
            plan.ep_extra = if run.quick() { vec![Some((Color::W, Kind::Q)), Some((Color::B, Kind::Q))] } else { vec![Some((Color::W, Kind::Q)), Some((Color::W, Kind::R)), Some((Color::W, Kind::B)), Some((Color::B, Kind::Q)), Some((Color::B, Kind::R)), Some((Color::B, Kind::B))] };
            plan.ep_restrict_king = true;
            plan.promo = true;
        }
        _ => {}
    }
    plan.corner = corner_sigs(if run.quick() { 2 } else { 20 });
    let (s, t) = sweep::run_plan(&ctx, &plan);
    sweep::sample_states(run);
    let _ = Origin::Built(String::new());
    let _ = J::Null;
    report::finish(run, s, t.max(s), "position sweep", true)
}

/// Replay of the non-position case kinds (operation lists, sessions, scripts ...), dispatched by kind.
pub fn replay_other(run: &'static Run, kind: &str, case: &J) -> Option<i32> {
    match kind {
        "ops" => {
            use crate::ops::{self, OpMon};
            let keymap = KeyMap::new();
            let ctx = make_ctx(run, Mon::for_prop(&run.prop), &keymap);
            let om = OpMon { rules: run.prop == "C02", key: run.prop == "C03", accum: run.prop == "C15", draws: run.prop == "C11", nulls: true };
            let seed = case.get("seed_fen").and_then(|x| x.as_str()).unwrap_or("");
            let opsv: Vec<String> = case.get("ops").and_then(|x| x.as_arr()).map(|a| a.iter().filter_map(|o| o.as_str().map(|s| s.to_string())).collect()).unwrap_or_default();
            if let Err(e) = ops::replay_ops(&ctx, om, seed, &opsv) {
                println!("replay stopped: {e}");
                run.violation("ops-replay", String::new(), J::Null, e);
            }
            Some(0)
        }
        "keycomp" => {
            keycomp::check(run);
            Some(0)
        }
        "slider" | "leaper" | "between" => Some(tables::replay(run, case)),
        "blend" | "pack" => {
            blend::replay(run, case);
            Some(0)
        }
        "fen" => {
            fenbad::replay(run, case);
            Some(0)
        }
        "tt-ops" | "tt-fill" | "tt-fill-large" | "tt-generations" => {
            tt::replay(run, case);
            Some(0)
        }
        "uci-script" | "uci-newgame" => {
            crate::ucichk::replay_uci(run, case);
            Some(0)
        }
        "uci-options" => {
            crate::ucichk::replay_options(run, case);
            Some(0)
        }
        "position-cmd" => {
            crate::ucichk::replay_position(run, case);
            Some(0)
        }
        "blackbox" => {
            crate::bbchk::replay(run, case);
            Some(0)
        }
        "fen-raw-root" => {
            fen_raw_roots(run);
            Some(0)
        }
        "eval-order" => {
            // cheap: the whole family is repeated
            eval_order(run);
            Some(0)
        }
        "nd-crash" => {
            // the whole quick tier is repeated by this (unchecked) binary: a crash ends the replay the same way
            let prop = case.get("property").and_then(|x| x.as_str()).unwrap_or("").to_string();
            println!("re-running {prop} quick in this build profile");
            std::env::set_var("TVC_ND_CHILD", "/dev/null");
            Some(run_prop(&prop, "quick", 0))
        }
        "wallclock" => {
            // a measurement: the whole family is repeated
            crate::bbchk::c14_wallclock(run);
            Some(0)
        }
        "session" if run.prop == "C12" && case.get("oracle").is_some() => {
            crate::ucichk::replay_c12_session(run, case);
            Some(0)
        }
        "session" => {
            crate::searchchk::replay_session(run, case);
            Some(0)
        }
        "picker" => {
            let keymap = KeyMap::new();
            let ctx = make_ctx(run, Mon::default(), &keymap);
            if let Err(e) = crate::picker::replay(&ctx, case) {
                println!("replay failed: {e}");
            }
            Some(0)
        }
        "virtual-clock" => {
            println!("re-running the virtual-clock family (a few seconds)");
            timealloc::virtual_clock_runs(run);
            Some(0)
        }
        "clock" | "movetime" | "clock-via-go" | "option-order" => {
            timealloc::replay(run, case);
            Some(0)
        }
        _ => None,
    }
}

fn ops_seeds(quick: bool) -> Vec<(String, crate::refchess::Pos, usize)> {
    let (small, big) = if quick { (4, 3) } else { (5, 4) };
    let mut v: Vec<(String, crate::refchess::Pos, usize)> = families::seeds().iter().map(|s| (s.name.to_string(), crate::refchess::Pos::from_fen(s.fen).unwrap(), if s.big { big } else { small })).collect();
    for f in crate::ops::RAW_FEN_ROOTS {
        v.push((format!("raw:{f}"), crate::refchess::Pos::from_fen(f).unwrap(), big));
    }
    v
}

fn c02_c03_c15(run: &Run, prop: &str) -> i32 {
    use crate::ops::{self, OpMon};
    let keymap = KeyMap::new();
    let ctx = make_ctx(run, Mon::for_prop(prop), &keymap);
    // E1 + E3: one make + take back per transition
    let mut plan = base_plan(run.quick());
    plan.promo = true;
    plan.ep_restrict_king = true;
    if run.quick() {
        plan.mat1 = vec![vec![(Color::W, Kind::P)], vec![(Color::B, Kind::P)], vec![(Color::W, Kind::R)], vec![(Color::B, Kind::Q)]];
        plan.ep_extra = vec![None];
        plan.castle_enemy = vec![vec![Kind::R]];
    } else {
        plan.ep_extra = vec![None, Some((Color::B, Kind::B)), Some((Color::W, Kind::R)), Some((Color::B, Kind::N))];
        plan.castle_enemy = vec![vec![Kind::R], vec![Kind::B], vec![Kind::Q], vec![Kind::N]];
    }
    plan.heavy = Some((9, 10, 10));
    plan.corner = corner_sigs(if run.quick() { 2 } else { 30 });
    plan.absurd = true;
    plan.ep_push = true;
    let (mut s, mut t) = sweep::run_plan(&ctx, &plan);
    // E2: nested make / null / take-back sequences
    let om = OpMon { rules: prop == "C02", key: prop == "C03", accum: prop == "C15", draws: false, nulls: true };
    let total = std::sync::Mutex::new(crate::monitors::Counts::new());
    let seeds = ops_seeds(run.quick());
    let (n, e) = ops::run_ops(&ctx, om, &seeds, &total);
    run.merge_counts(&total.lock().unwrap());
    run.family("E2-OPS", &format!("{} seeds, nesting depth {} (large seeds {}), operations: every legal move, null move (not in check, not after a null move), take back; one Game object per (seed, first operation)", seeds.len(), seeds.iter().map(|x| x.2).max().unwrap(), seeds.iter().map(|x| x.2).min().unwrap()), n, e, true, "all sequences");
    s += n;
    t += e;
    // one long reversible game (clock and history length far beyond what the nested sequences reach): at every ply
    // every other legal move is made and taken back on the same game object before the scripted move is played
    {
        let plies = if run.quick() { 560 } else { 1100 };
        let (seed, mut script) = ops::rook_cycle_script(7, 8, plies, true);
        // ... and the whole game is taken back move by move at the end
        script.extend(std::iter::repeat("undo".to_string()).take(plies));
        total.lock().unwrap().clear();
        match ops::run_script(&ctx, om, &seed, &script, &total) {
            Ok(n) => {
                run.merge_counts(&total.lock().unwrap());
                run.family("E2-LONG-LINE", &format!("one scripted reversible game of {plies} plies (two rooks cycling, recurrence every 112 plies, halfmove clock and history length up to {plies}); at each ply every legal move is made and taken back, then the scripted move is played; at the end the whole game is taken back ply by ply: {} operations", script.len()), n, script.len() as u64, true, "");
                s += n;
                t += script.len() as u64;
            }
            Err(e) => run.machinery_error(format!("long line script: {e}")),
        }
    }
    // one deeply nested line without sibling moves (the take-back stack far deeper than any search or game goes),
    // null moves in between, then everything taken back in reverse order, each level compared with its snapshot
    {
        let plies = if run.quick() { 2600 } else { 20000 };
        let (seed, script) = ops::deep_nest_script(7, 8, plies, 37);
        total.lock().unwrap().clear();
        match ops::run_script(&ctx, om, &seed, &script, &total) {
            Ok(n) => {
                run.merge_counts(&total.lock().unwrap());
                run.family("E2-DEEP-NEST", &format!("one line nested {plies} operations deep on one game object (two rooks cycling, a null move in place of every 37th move), checked after every operation, then taken back level by level in reverse order, every level compared with the snapshot taken on the way down: {} operations", script.len()), n, script.len() as u64, true, "");
                s += n;
                t += script.len() as u64;
            }
            Err(e) => run.machinery_error(format!("deep nest script: {e}")),
        }
    }
    if prop == "C03" {
        let (a, b) = match crate::util::catch(|| keycomp::check(run)) {
            Ok(x) => x,
            Err(e) => {
                // components are read through Game::from_state with positions that are not legal (a lone
                // piece, an en-passant square anywhere): a panic there is outside the property's domain
                run.machinery_error(format!("key components could not be read through the public API: {e}"));
                (0, 0)
            }
        };
        s += a;
        t += b;
        run.count("distinct_keys_bound", keymap.len() as u64);
        run.note(format!("collision map: {} distinct keys bound to identities", keymap.len()));
    }
    sweep::sample_states(run);
    run.sample(J::obj(vec![("family", J::s("E2-OPS")), ("seed", J::s("ep-prepare")), ("ops", J::s("d2d4 e4d3 undo null e1d1 undo undo-null undo ..."))]));
    for f in ["t_en_passant", "t_castling", "t_promotion", "op_en_passant", "op_castling", "op_promotion", "op_null", "op_null_with_ep_target"] {
        run.require(f, 5);
    }
    run.assume("oracle: refchess apply() for the position after a move (en-passant target compared by the tolerant rule of DESIGN.md 4.1); recomputation from scratch for key and accumulators");
    let rule = match prop {
        "C02" => "every transition of the position sweep and every operation of every nested make/null/take-back sequence: result compared field by field with the reference, take-back compared with a full snapshot (placement, side, rights, ep, clocks, key, accumulators, bitboards, history length, FEN); three board views compared on all 64 squares",
        "C03" => "carried key == key recomputed from scratch after every make / null move / take-back; key -> identity map over all states met (a second identity under one key is a violation); all 838 key components pairwise distinct and non-zero",
        _ => "carried phase counter and packed piece-square accumulator == recomputation from the board (and == separate 64-bit sums) after every make / null move / take-back",
    };
    report::finish(run, s, t, rule, true)
}

fn c11(run: &Run) -> i32 {
    use crate::ops::{self, OpMon};
    use crate::refchess::Pos;
    let keymap = KeyMap::new();
    let ctx = make_ctx(run, Mon::for_prop("C11"), &keymap);
    // material rule on every state of the sweep
    let mut plan = base_plan(run.quick());
    plan.mat2 = {
        let minors = [(Color::W, Kind::B), (Color::W, Kind::N), (Color::B, Kind::B), (Color::B, Kind::N)];
        let mut v = vec![];
        for (i, a) in minors.iter().enumerate() {
            for b in minors.iter().skip(i) {
                v.push(vec![*a, *b]);
            }
        }
        if run.quick() {
            v.clear();
        }
        v
    };
    let (mut s, mut t) = sweep::run_plan(&ctx, &plan);
    // three minors (must never be declared insufficient): complete for one signature, king-sharded
    {
        let total = std::sync::Mutex::new(crate::monitors::Counts::new());
        // thorough: one signature for every white-king square (1.4 G positions); the quick tier one seed-selected square
        let sigs: Vec<Vec<families::Man>> = vec![vec![(Color::W, Kind::B), (Color::W, Kind::N), (Color::B, Kind::N)]];
        // quick: one seed-selected white-king square (complete for that square); thorough: all 64
        let wks: Vec<u8> = if run.quick() { vec![(crate::util::mix(run.seed) % 64) as u8] } else { (0..64).collect() };
        let x = sweep::run_family(&ctx, "F-MAT(kings+3 minors)", &format!("{} signatures, white king on {:?} (complete per king square), black king and men on all squares", sigs.len(), if wks.len() == 1 { format!("{}", crate::refchess::sq_name(wks[0])) } else { "all 64 squares".to_string() }), sigs.len() * wks.len() * 64, &total, &|i, cb| {
            let sig = &sigs[i / (wks.len() * 64)];
            let r = i % (wks.len() * 64);
            families::enumerate_material_kk(wks[r / 64], (r % 64) as u8, sig, cb)
        });
        run.merge_counts(&total.lock().unwrap());
        s += x.0;
        t += x.1;
    }
    // histories
    let l = if run.quick() { 5 } else { 6 };
    let base = [
        ("kr-k", "8/8/8/4k3/8/8/8/R3K3 w Q - 0 1"),
        ("kr-kr-rights", "r3k3/8/8/8/8/8/8/R3K3 w Qq - 0 1"),
        ("kq-k", "8/8/8/4k3/8/8/8/3QK3 b - - 0 1"),
        ("kn-kp", "8/8/4k3/8/8/8/p7/N3K3 w - - 0 1"),
        ("kb-kb", "5b2/8/4k3/8/8/8/8/2B1K3 w - - 0 1"),
        ("ep-first", "4k3/8/8/8/3pP3/8/8/4K3 b - e3 0 1"),
        ("ep-first-pinned", "4k3/8/8/8/r2pP2K/8/8/8 b - e3 0 1"),
        ("pawns", "4k3/4p3/8/8/8/8/4P3/4K3 w - - 0 1"),
        ("mate-on-100", "7k/5K2/6Q1/8/8/8/8/8 w - - 98 80"),
        ("stalemate-on-100", "7k/8/5K2/6Q1/8/8/8/8 w - - 98 80"),
        // a rook's pawn double-steps while an enemy pawn stands on the opposite edge file one rank off (no capture possible)
        ("edge-a4", "4k3/8/8/8/8/7p/P7/4K3 w - - 0 1"),
        ("edge-h4", "4k3/8/8/p7/8/8/7P/4K3 w - - 0 1"),
        ("edge-a5", "4k3/p7/8/8/7P/8/8/4K3 b - - 0 1"),
        ("edge-h5", "4k3/7p/P7/8/8/8/8/4K3 b - - 0 1"),
    ];
    // all four rooks at home with all rights: positions that differ only in which rights were lost must not count as repeated
    let rights_seed = ("all-rights", "r3k2r/8/8/8/8/8/8/R3K2R w KQkq - 0 1");
    let mut seeds: Vec<(String, Pos, usize)> = vec![];
    for (name, fen) in base {
        let p0 = Pos::from_fen(fen).unwrap();
        let clocks: &[u32] = if name.contains("100") { &[98] } else if name.starts_with("edge") { &[0, 97] } else { &[0, 3, 97, 98, 99, 100] };
        for hm in clocks {
            let mut p = p0.clone();
            p.halfmove = *hm;
            seeds.push((format!("{name}@{hm}"), p, if *hm == 0 || name.contains("100") { l } else { l - 1 }));
        }
    }
    seeds.push((rights_seed.0.to_string(), Pos::from_fen(rights_seed.1).unwrap(), if run.quick() { 4 } else { 5 }));
    let om = OpMon { rules: false, key: false, accum: false, draws: true, nulls: false };
    let total = std::sync::Mutex::new(crate::monitors::Counts::new());
    let (n, e) = ops::run_ops(&ctx, om, &seeds, &total);
    run.merge_counts(&total.lock().unwrap());
    total.lock().unwrap().clear();
    run.family("E2-HISTORIES", &format!("{} (seed, start clock) pairs, all paths of length <= {} (no state merging), start clocks {{0,3,97,98,99,100}} with empty history", seeds.len(), l), n, e, true, "every node: repetition and fifty-move verdicts vs the path");
    s += n;
    t += e;
    // long reversible histories: every pair of rook-cycle lengths, positions recurring at every distance from 4 to
    // 112 plies, played on past clock 100 and past two full periods
    {
        let pairs: Vec<(usize, usize)> = (2..=7).flat_map(|p| (2..=8).map(move |q| (p, q))).collect();
        let nodes = std::sync::atomic::AtomicU64::new(0);
        crate::util::par_for(pairs.len(), |i| {
            let (p, q) = pairs[i];
            let lcm = (1..).map(|k| k * p).find(|x| x % q == 0).unwrap();
            let plies = (4 * lcm + 7).max(120).min(470);
            let (seed, script) = ops::rook_cycle_script(p, q, plies, false);
            match ops::run_script(&ctx, om, &seed, &script, &total) {
                Ok(n) => {
                    nodes.fetch_add(n, std::sync::atomic::Ordering::Relaxed);
                }
                Err(e) => run.machinery_error(format!("rook cycle script ({p},{q}): {e}")),
            }
        });
        // and one of them with every other legal move made and taken back at every ply: the verdicts after a take-back
        // (clock and history restored) are judged as well
        {
            let (seed, script) = ops::rook_cycle_script(7, 8, 300, true);
            match ops::run_script(&ctx, om, &seed, &script, &total) {
                Ok(n) => {
                    nodes.fetch_add(n, std::sync::atomic::Ordering::Relaxed);
                }
                Err(e) => run.machinery_error(format!("rook cycle script with take-backs: {e}")),
            }
        }
        // capture histories that start far outside normal material: a rook or queen eats 1..6 queens, rooks, knights or
        // pawns; the dead-material verdict is judged after every ply
        for n in 1..=6usize {
            for fodder in ['Q', 'R', 'N', 'P'] {
                for eater in ['r', 'q'] {
                    let (seed, script) = ops::eat_script(n, fodder, eater);
                    // (a queen on a7 looks at g1: such a script is not a legal game and is left out)
                    let mut p = Pos::from_fen(&seed).unwrap();
                    let mut legal = p.is_legal_position();
                    for m in &script {
                        match p.legal_moves().into_iter().find(|x| x.uci() == *m) {
                            Some(rm) if legal => p = p.apply(&rm),
                            _ => legal = false,
                        }
                    }
                    if !legal {
                        continue;
                    }
                    match ops::run_script(&ctx, om, &seed, &script, &total) {
                        Ok(k) => {
                            nodes.fetch_add(k, std::sync::atomic::Ordering::Relaxed);
                        }
                        Err(e) => run.machinery_error(format!("eat script ({n},{fodder},{eater}) from {seed}: {e}")),
                    }
                }
            }
        }
        let n = nodes.load(std::sync::atomic::Ordering::Relaxed);
        run.merge_counts(&total.lock().unwrap());
        total.lock().unwrap().clear();
        run.family("E2-LONG-CYCLES", "42 scripted histories (white rook cycling over p = 2..7 squares of rank 1, black rook over q = 2..8 squares of rank 8): recurrence distances 4..112 plies, each played for max(120, 4 lcm(p,q) + 7) plies (at most 470); the (7,8) history once more for 300 plies with every legal move made and taken back at every ply; 44 capture histories (a rook or queen eats a file of 1..6 queens, rooks, knights or pawns) with the dead-material verdict judged at every ply", n, n, true, "every node: repetition and fifty-move verdicts vs the path");
        s += n;
        t += n;
    }
    let (a, b) = crate::searchchk::c11_search(run);
    s += a;
    t += b;
    run.require("search_draw_negative_baselines", 5);
    for f in ["repeated_positions", "clock_at_least_100", "clock_100_and_no_legal_move", "material_must_be_draw", "material_must_not_be_draw"] {
        run.require(f, 3);
    }
    run.sample(J::obj(vec![("family", J::s("E2-HISTORIES")), ("seed_fen", J::s("8/8/8/4k3/8/8/8/R3K3 w Q - 97 1")), ("path", J::s("a1a2 e5e6 a2a1 e6e5 (position repeats with castling right lost: not a repetition of the start)"))]));
    run.assume("repetition oracle: identity = placement, side, rights, en-passant target; where the engine's target convention (enemy pawn adjacent) and the FIDE convention (capture legal) disagree on the verdict nothing is asserted (counted)");
    report::finish(run, s, t, "material rule on every state of the sweep families; repetition and fifty-move verdicts at every node of every path of the history families, compared with the list of identities since the last capture or pawn move", true)
}

/// Positions one move below a FEN root whose en-passant field names a square nobody can capture on (what most programs
/// write after every double step): written and read back, everything incl. the key must agree.
fn fen_raw_roots(run: &Run) {
    {
        use crate::chess::game::Game;
        let mut n = 0u64;
        for fen in crate::ops::RAW_FEN_ROOTS {
            let Ok(root) = Game::from_fen(fen) else { continue };
            let moves: Vec<_> = root.moves().iter().copied().collect();
            for m in moves {
                let mut g = root.clone();
                g.make_move(m);
                n += 1;
                let text = g.to_fen();
                match crate::util::catch(|| Game::from_fen(&text)) {
                    Ok(Ok(h)) => {
                        if h.zobrist != g.zobrist || h.to_fen() != text {
                            run.violation("fen-roundtrip-position", format!("fen-roundtrip-raw-root|{fen}|{m:?}"), J::obj(vec![("kind", J::s("fen-raw-root")), ("seed_fen", J::s(fen)), ("move", J::s(format!("{m:?}")))]), format!("{fen} + {m:?}: the position has key {:#018x}, the position read back from its own FEN {text} has key {:#018x}", g.zobrist.0, h.zobrist.0));
                        }
                    }
                    other => run.violation("fen-read-rejects-own-output", format!("fen-read-rejects-own-output|{text}"), J::obj(vec![("kind", J::s("fen")), ("fen", J::s(text.clone())), ("family", J::s("raw-root"))]), format!("from_fen of own output {text}: {other:?}")),
                }
            }
        }
        run.family("FEN-RAW-ROOTS", "every position one move below 5 FEN roots whose en-passant field is set although no pawn can capture there: written, read back, compared incl. the key", n, n, true, "");
    }
}

fn c06(run: &Run) -> i32 {
    let keymap = KeyMap::new();
    let ctx = make_ctx(run, Mon::for_prop("C06"), &keymap);
    let mut plan = base_plan(run.quick());
    plan.promo = true;
    plan.ep_extra = if run.quick() { vec![None] } else { vec![None, Some((Color::B, Kind::B)), Some((Color::W, Kind::Q))] };
    plan.ep_restrict_king = true;
    plan.castle_enemy = vec![vec![Kind::R]];
    plan.heavy = Some((9, 10, 10));
    let (mut s, mut t) = sweep::run_plan(&ctx, &plan);
    fen_raw_roots(run);
    let (a, b) = fenbad::run(run);
    s += a;
    t += b;
    sweep::sample_states(run);
    for f in ["fen_roundtrips", "fen_text_roundtrips", "fen_strings_accepted", "fen_strings_rejected"] {
        run.require(f, 100);
    }
    run.assume("round trip compares placement, side, rights, en-passant target, clocks, key and accumulators; the canonical text is written by the reference model's own FEN writer");
    report::finish(run, s, t, "(a) every position of the sweep families: from_fen(to_fen(g)) == g field by field, and canonical reference text -> read -> write reproduces the text; (b) enumerated malformed input (rank-width vectors, single edits, counters, all short strings), each call inside catch_unwind: Ok or Err, never a panic; a board field with a rank that is not eight wide must be rejected", true)
}

fn c16(run: &Run) -> i32 {
    let keymap = KeyMap::new();
    let ctx = make_ctx(run, Mon::for_prop("C16"), &keymap);
    let mut plan = base_plan(run.quick());
    plan.heavy = Some((9, 10, 10));
    plan.promo = true;
    if !run.quick() {
        plan.ep_extra = vec![None, Some((Color::B, Kind::B))];
        plan.castle_enemy = vec![vec![Kind::Q], vec![Kind::R]];
        plan.mat2 = vec![vec![(Color::W, Kind::Q), (Color::B, Kind::R)], vec![(Color::W, Kind::P), (Color::B, Kind::P)], vec![(Color::W, Kind::B), (Color::B, Kind::N)]];
    }
    // endings with bishops and pawns (opposite-coloured bishops, the wrong bishop for a rook's pawn, doubled passed
    // pawns): kings fixed on a1 / h8 and on e1 / e8, three further men on all squares, with colour-mirrored twins
    {
        let (w, b) = (Color::W, Color::B);
        let sigs: Vec<Vec<families::Man>> = vec![vec![(w, Kind::B), (b, Kind::B), (b, Kind::P)], vec![(w, Kind::B), (w, Kind::P), (w, Kind::P)], vec![(w, Kind::B), (w, Kind::P), (b, Kind::P)], vec![(w, Kind::P), (w, Kind::P), (b, Kind::P)]];
        for (wk, bk) in [(0u8, 63u8), (4, 60)] {
            for sig in &sigs {
                if run.quick() && (wk, bk) == (4, 60) && sig[0].1 == Kind::P {
                    continue;
                }
                plan.corner.push((wk, bk, sig.clone()));
            }
        }
    }
    let (mut s, mut t) = sweep::run_plan(&ctx, &plan);
    let (a, b) = blend::run(run);
    s += a;
    t += b;
    let (a, b) = eval_order(run);
    s += a;
    t += b;
    sweep::sample_states(run);
    run.require("phase_above_24", 100);
    run.require("evals", 1000);
    run.assume("pure middlegame / endgame assessments are obtained from the engine's own evaluation with the public phase field set to 24 and to 0");
    report::finish(run, s, t, "every position of the sweep families and of F-HEAVY: eval == eval of the colour-mirrored twin, no panic, outside the mate range, between the phase-24 and phase-0 evaluations; the blend itself on a lattice of (mg, eg, phase) triples; pack/unpack round trip", true)
}

/// The evaluation is a function of the position: one list of positions is evaluated front to back on one fresh
/// thread and back to front on another; any dependence on what the thread evaluated before shows as a difference.
/// The list puts positions whose pawns stand on the same squares in different colours next to each other
/// (all 1- and 2-subsets of the 48 pawn squares x all colourings, two king placements, both sides to move).
fn eval_order(run: &Run) -> (u64, u64) {
    use crate::refchess::Pos;
    use crate::chess::game::Game;
    let mut list: Vec<Pos> = vec![];
    let pawn_squares: Vec<u8> = (8u8..56).collect();
    for (wk, bk) in [(4u8, 60u8), (0, 63)] {
        let mut sets: Vec<Vec<u8>> = pawn_squares.iter().map(|s| vec![*s]).collect();
        for (i, a) in pawn_squares.iter().enumerate() {
            for b in pawn_squares.iter().skip(i + 1) {
                sets.push(vec![*a, *b]);
            }
        }
        for set in sets {
            for colouring in 0..(1u32 << set.len()) {
                for side in [Color::W, Color::B] {
                    let mut p = Pos::empty();
                    p.board[wk as usize] = Some((Color::W, Kind::K));
                    p.board[bk as usize] = Some((Color::B, Kind::K));
                    for (i, sq) in set.iter().enumerate() {
                        p.board[*sq as usize] = Some((if colouring & (1 << i) != 0 { Color::B } else { Color::W }, Kind::P));
                    }
                    p.side = side;
                    if p.is_legal_position() {
                        list.push(p);
                    }
                }
            }
        }
    }
    // each pass builds its own game objects on its own fresh thread (nothing is shared but the reference positions)
    let eval_all = |rev: bool| -> Vec<Result<i32, String>> {
        let games: Vec<Game> = list.iter().map(crate::eng::to_game).collect();
        let idx: Vec<usize> = if rev { (0..games.len()).rev().collect() } else { (0..games.len()).collect() };
        let mut out: Vec<Result<i32, String>> = vec![Ok(0); games.len()];
        for i in idx {
            out[i] = crate::util::catch(|| i32::from(crate::engine::eval::eval(&games[i]).0));
        }
        out
    };
    let (fwd, bwd) = std::thread::scope(|sc| {
        let a = sc.spawn(|| eval_all(false));
        let b = sc.spawn(|| eval_all(true));
        (a.join().unwrap(), b.join().unwrap())
    });
    let mut n = 0u64;
    for (i, p) in list.iter().enumerate() {
        n += 1;
        if fwd[i] != bwd[i] {
            let prev = if i > 0 { list[i - 1].to_fen() } else { String::new() };
            let next = if i + 1 < list.len() { list[i + 1].to_fen() } else { String::new() };
            run.violation(
                "eval-depends-on-earlier-evaluations",
                format!("eval-order|{}", p.to_fen()),
                J::obj(vec![("kind", J::s("eval-order")), ("fen", J::s(p.to_fen())), ("evaluated_before_forward", J::s(prev.clone())), ("evaluated_before_backward", J::s(next.clone()))]),
                format!("eval({}) = {:?} when evaluated after {prev}, {:?} when evaluated after {next} (same thread, nothing else in between)", p.to_fen(), fwd[i], bwd[i]),
            );
        }
    }
    run.family("EVAL-ORDER", "kings on e1/e8 and on a1/h8, pawns on every 1- and 2-subset of the 48 pawn squares in every colouring, both sides to move: evaluated front to back on one fresh thread and back to front on another", n, 2 * n, true, "results must agree position by position");
    (n, 2 * n)
}

pub fn advertised_hash_min() -> usize {
    advertised_hash_range().0
}

fn advertised_hash_range() -> (usize, usize) {
    let (mut min, mut max) = (1usize, 1024usize);
    for l in crate::checks::uci_option_lines() {
        if l.contains("name Hash ") {
            let w: Vec<&str> = l.split_whitespace().collect();
            for i in 0..w.len().saturating_sub(1) {
                if w[i] == "min" {
                    min = w[i + 1].parse().unwrap_or(min);
                }
                if w[i] == "max" {
                    max = w[i + 1].parse().unwrap_or(max);
                }
            }
        }
    }
    (min, max)
}

/// The `option ...` lines of the engine's own `uci` answer, through the real command loop.
pub fn uci_option_lines() -> Vec<String> {
    use crate::verif_hooks as vh;
    let log: vh::Log = std::sync::Arc::new(std::sync::Mutex::new(vec![]));
    vh::set_log(Some(log.clone()));
    let mut u = crate::engine::uci::Uci::verif_new(1);
    let _ = u.verif_run_line("uci");
    vh::set_log(None);
    let v = log.lock().unwrap().iter().filter(|l| l.starts_with("option ")).cloned().collect();
    v
}

fn c19(run: &Run) -> i32 {
    let (min, max) = advertised_hash_range();
    run.note(format!("advertised Hash range read from the engine's uci answer: {min}..{max}"));
    let sizes: Vec<usize> = {
        let mut v = vec![min, 1, 2];
        v.dedup();
        v.sort();
        v.dedup();
        v
    };
    let (mut s, mut t) = tt::run(run, &sizes);
    // 3 MB: a slot count that is not a power of two
    let mut fill_sizes = sizes.clone();
    fill_sizes.push(3);
    if !run.quick() {
        fill_sizes.extend([5, 7, 16, 64]);
    }
    let x = tt::fill_indicator(run, &fill_sizes);
    s += x.0;
    t += x.1;
    let x = tt::fill_large(run, if run.quick() { 128 } else { 512 });
    s += x.0;
    t += x.1;
    for sz in &sizes {
        let y = tt::many_generations(run, *sz);
        s += y.0;
        t += y.1;
    }
    if !run.quick() {
        // every advertised size can be created, used and resized to (ascending), one table at a time
        let mut n = 0u64;
        let r = crate::util::catch(|| {
            let mut tbl = crate::engine::search::transposition::SearchTranspositionTable::new(min);
            for sz in (min..=max.min(1024)).step_by(1) {
                tbl.resize(sz);
                tbl.insert(&crate::chess::zobrist::ZobristHash(tt::KEYS[0]), crate::engine::search::transposition::SearchTranspositionTableData { bound: crate::engine::search::transposition::NodeBound::Exact, eval: crate::engine::eval::Eval(1), depth: 1, age: 0, best_move: None });
                assert!(tbl.get(&crate::chess::zobrist::ZobristHash(tt::KEYS[0])).is_some(), "size {sz}: entry not retrievable");
                assert!(tbl.get(&crate::chess::zobrist::ZobristHash(tt::KEYS[3])).is_none() || sz == 0, "size {sz}: other key retrievable");
            }
        });
        if let Err(e) = r {
            run.violation("tt-panic", format!("tt-panic|all-sizes|{e}"), J::obj(vec![("kind", J::s("tt-fill")), ("size_mb", J::i(0))]), format!("resizing through every advertised size: {e}"));
        }
        n += (max - min + 1) as u64;
        run.family("TT-ALL-SIZES", &format!("resize to every advertised size {min}..={max} MB ascending on one table, insert + probe after each"), n, n, true, "");
        s += n;
        t += n;
    }
    run.sample(J::obj(vec![("size_mb", J::i(1)), ("start_generation", J::i(255)), ("ops", J::s("insert(k0,d2,exact) insert(k1,d2,upper) new-search insert(k1,d1,lower) resize(2) insert(k3,d1,exact)"))]));
    run.assume("ages are compared modulo 256: explored histories keep fewer than 256 new-search events between two inserts into one slot (TT-GENERATIONS inserts after every event)");
    run.assume("which keys share a slot is derived through insert/get on a fresh table, not assumed");
    report::finish(run, s, t, "breadth-first search over operation histories of the real table, de-duplicated on the canonical observable state; after every operation every probe is compared with a reference replacement policy (the case the property leaves open is decided by the implementation's own should_overwrite_with)", true)
}

fn c14(run: &'static Run) -> i32 {
    let (mut s, mut t) = timealloc::run(run);
    let (a, b) = timealloc::virtual_clock_runs(run);
    s += a;
    t += b;
    let (a, b) = timealloc::via_go(run);
    s += a;
    t += b;
    let (a, b) = timealloc::option_order(run);
    s += a;
    t += b;
    let (a, b) = crate::bbchk::c14_wallclock(run);
    s += a;
    t += b;
    run.assume("part 2 of the property (a search returns before the clock runs out) is explored with a virtual clock; real wall-clock time cannot be enumerated: the family E7-WALL-CLOCK is a labelled measurement on the optimised binary (best of up to eight attempts, skipped when the sandbox cannot time a 100 ms search)");
    report::finish(run, s, t, "every tuple of the clock grid through TimeStrategy::new: hard <= (remaining - overhead)/2 (+1 ms tolerance for the f32 arithmetic), soft <= hard; movetime used as given", true)
}

fn c10(run: &Run) -> i32 {
    let keymap = KeyMap::new();
    let mut mon = Mon::default();
    // c10 = deviations + 1
    mon.c10 = if run.quick() { 3 } else { 4 };
    let ctx = make_ctx(run, mon, &keymap);
    let mut plan = base_plan(run.quick());
    plan.rights = false;
    plan.reach_depth_small = if run.quick() { 2 } else { 3 };
    plan.reach_depth_big = if run.quick() { 1 } else { 2 };
    plan.mat1 = if run.quick() { vec![] } else { vec![vec![(Color::B, Kind::Q)], vec![(Color::W, Kind::P)]] };
    plan.promo = false;
    let (mut s, _t) = sweep::run_plan(&ctx, &plan);
    // the broad position families with at most one deviation per stream: what they look for is a position
    // shape (no quiet moves, pinned promoting pawns, en passant under pins), not a table content
    let mut mon1 = Mon::default();
    mon1.c10 = 2;
    let ctx1 = make_ctx(run, mon1, &keymap);
    let mut plan1 = base_plan(run.quick());
    plan1.skip_reach = true;
    plan1.rights = false;
    plan1.mat1 = vec![];
    plan1.promo = !run.quick();
    plan1.ep_extra = if run.quick() { vec![None] } else { vec![None, Some((Color::B, Kind::B)), Some((Color::B, Kind::R))] };
    plan1.corner = if run.quick() { vec![] } else { corner_sigs(2) };
    let (s1, _) = sweep::run_plan(&ctx1, &plan1);
    s += s1;
    // position shapes with the default configuration only (two streams per position): en passant next to pins with a
    // further enemy slider anywhere, promotions, cornered kings
    let mut mon0 = Mon::default();
    mon0.c10 = 1;
    let ctx0 = make_ctx(run, mon0, &keymap);
    let mut plan0 = base_plan(run.quick());
    plan0.skip_reach = true;
    plan0.rights = false;
    plan0.mat1 = vec![];
    plan0.ep_restrict_king = true;
    plan0.ep_extra = if run.quick() { vec![Some((Color::B, Kind::B)), Some((Color::B, Kind::Q))] } else { ep_extras_all() };
    plan0.promo = true;
    plan0.corner = corner_sigs(if run.quick() { 2 } else { 0 });
    let (s0, _) = sweep::run_plan(&ctx0, &plan0);
    s += s0;
    let streams = run.counter("picker_streams");
    for f in ["picker_positions_with_previous_move", "picker_positions_with_captures_and_quiets", "picker_hash_move_first"] {
        run.require(f, 50);
    }
    run.sample(J::obj(vec![("position", J::s("rnbqkb1r/ppp1pppp/5n2/3p3Q/4P3/8/PPPP1PPP/RNB1KBNR w KQkq - 2 3")), ("config", J::s("hash=- killers_pushed=[g1f3,b1c3] counter=- history=0 ply=0"))]));
    run.assume("killer slots are filled through KillersTable::try_push and the counter move through CountermoveTable::set keyed by the real previous move, so only reachable table states are explored; history scores: zero / ascending / descending");
    run.assume("the order of the stream is not asserted (the property speaks about the set)");
    report::finish(run, s, streams.max(s), &format!("positions with a previous move (BFS from {} seeds) x every configuration of hash move / killers / counter move / history / ply with at most {} simultaneous deviations from the default; the stream of MovePicker::next as a multiset equals the reference legal moves; captures-only stream duplicate-free, legal, containing all captures and queen promotions", families::seeds().len(), mon.c10 - 1), true)
}

fn c04_c08(run: &'static Run, prop: &str) -> i32 {
    use crate::searchchk::{self, Focus};
    let focus = if prop == "C04" { Focus::C04 } else { Focus::C08 };
    let (mut s, mut t) = searchchk::c04_c08(run, focus);
    if prop == "C04" {
        let (a, b) = crate::bbchk::c04(run);
        s += a;
        t += b;
    } else {
        let (a, b) = crate::ucichk::c08_text(run);
        s += a;
        t += b;
        let (a, b) = crate::bbchk::c08(run);
        s += a;
        t += b;
    }
    run.require("searches", 1000);
    run.require("info_lines", 1000);
    if prop == "C08" {
        run.require("mate_announcements", 100);
    }
    run.sample(J::obj(vec![("session", J::s("hash 1 MB, generation 254: search [8/6k1/8/2R5/8/1K6/3Q1p2/8 w - - 1 25] depth 1, 2, ... 6, 5, ... 1 on one persistent state"))]));
    run.sample(J::obj(vec![("session", J::s("K+Q v K, white king b1, black king h8: every queen square x both sides, depth 6, searched one after the other on one table starting at generation 255"))]));
    run.assume("checked build: overflow checks and debug assertions on, every search inside catch_unwind; non-termination = more than 60 M nodes (deterministic budget reported through hook H1)");
    run.assume("oracle: refchess legal moves / checkmate; the same sessions at depth limits only are replayed on the optimised binary by C13/C17's black-box runs");
    let rule = if prop == "C04" {
        "every search of every enumerated session: terminates within the node budget, does not panic, returns a move that is legal in the searched position and leaves the given position untouched"
    } else {
        "every info line of every search of every enumerated session: principal variation non-empty and legal move by move, depths 1,2,3,... without gaps and within the limit, mate announcements with exactly the matching number of plies ending in checkmate of the announced side"
    };
    report::finish(run, s, t, rule, true)
}

fn c09(run: &Run) -> i32 {
    let (s, t) = crate::searchchk::c09(run);
    run.require("polls_of_unperturbed_searches", 30);
    run.sample(J::obj(vec![("session", J::s("search [kiwipete] depth 7 with the stop flag true from poll k (k = 1..P), then depth 4 of the same and of a child position on the same tables"))]));
    run.assume("the stop flag is behind the seam of hook H1 (is_force_stopped); the polling frequency is the production one");
    report::finish(run, s, t, "for each (position, limit): every index k of the poll at which the stop is first observed; after the first true observation no further node visit and no further poll; legal move returned; input position untouched; follow-up searches on the same tables return legal moves and legal lines", true)
}

fn c12(run: &'static Run) -> i32 {
    let (mut s, mut t) = crate::ucichk::c12(run);
    let (a, b) = crate::bbchk::c12(run);
    s += a;
    t += b;
    let (a, b) = crate::ucichk::newgame_under_schedules(run);
    s += a;
    t += b;
    run.sample(J::obj(vec![("session", J::s("search [kiwipete] depth 5 | sethash 2 | ucinewgame | search [startpos] depth 5   vs   fresh Hash 2: search [startpos] depth 5"))]));
    run.assume("time / nps fields are removed from the traces; everything else (best move, depth, seldepth, score, line, nodes, hashfull) must be identical");
    run.assume("machine load: the 16 workers execute duplicates concurrently; wall-clock independence: depth-limited searches under four clock behaviours");
    report::finish(run, s, t, "(a) every session of length <= 3 executed on independently built states under four clock behaviours gives identical traces; (b) <history, ucinewgame, probe> equals <probe> on a fresh state for every history and probe; (c) the same through the real command loop against a freshly constructed engine", true)
}

fn c13(run: &'static Run) -> i32 {
    let (mut s, mut t) = crate::ucichk::c13(run);
    let (a, b) = crate::bbchk::c13(run);
    s += a;
    t += b;
    let (a, b) = crate::ucichk::setoption_under_schedules(run);
    s += a;
    t += b;
    run.assume("the option ranges are parsed from the engine's own `uci` answer, so a changed advertisement changes the enumeration");
    report::finish(run, s, t, "every advertised spin option x the values listed in coverage.families: setoption accepted, isready answered, option value taken, go depth 3 answered by exactly one legal bestmove; the search thread must neither die nor hang", true)
}

fn c17(run: &Run) -> i32 {
    let (mut s, mut t) = crate::ucichk::c17(run);
    let (a, b) = crate::bbchk::c17(run);
    s += a;
    t += b;
    run.assume("oracle: refchess apply() along the game, en-passant field by the tolerant rule; the replies are compared in long algebraic form as the engine's Debug formatting of Move prints them (the form `d perftdiv` uses)");
    report::finish(run, s, t, "every enumerated game sent as one position command to the real command loop: resulting position equals the rules-level position, FEN dump describes it, history length equals the number of moves, the set of replies equals the legal moves in long algebraic form, bestmove text well-formed and legal", true)
}
