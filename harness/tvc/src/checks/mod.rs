//! Per-property entry points.

use crate::families;
use crate::monitors::{Ctx, KeyMap, Mon, Origin};
use crate::refchess::{Color, Kind};
use crate::report::{self, Run};
use crate::sweep::{self, SweepPlan};
use crate::util::J;

pub mod replay;
pub use replay::replay;

pub fn run(prop: &str, tier: &str, seed: u64) -> i32 {
    let run = Run::new(prop, tier, seed);
    match prop {
        "C01" => c01(&run),
        "C15" | "C16" | "C18" | "C20" | "SWEEPALL" => generic_sweep(&run, prop),
        _ => {
            eprintln!("unknown property {prop}");
            2
        }
    }
}

pub fn base_plan(quick: bool) -> SweepPlan {
    SweepPlan {
        reach_depth_small: if quick { 3 } else { 4 },
        reach_depth_big: if quick { 2 } else { 3 },
        mat1: true,
        mat2: vec![],
        ep_extra: vec![],
        ep_restrict_king: quick,
        castle_enemy: vec![],
        castle_blockers: vec![None],
        disamb: vec![],
        promo: false,
        heavy: None,
        rights: true,
        see_family: None,
    }
}

pub fn ep_extras_all() -> Vec<Option<families::Man>> {
    let mut v: Vec<Option<families::Man>> = vec![None];
    for c in [Color::W, Color::B] {
        for k in [Kind::Q, Kind::R, Kind::B, Kind::N, Kind::P] {
            v.push(Some((c, k)));
        }
    }
    v
}

pub fn make_ctx<'a>(run: &'a Run, mon: Mon, keymap: &'a KeyMap) -> Ctx<'a> {
    Ctx { run, mon, keymap, see_values: crate::monitors::probe_see_values() }
}

fn c01(run: &Run) -> i32 {
    let keymap = KeyMap::new();
    let ctx = make_ctx(run, Mon::for_prop("C01"), &keymap);
    let mut plan = base_plan(run.quick());
    plan.ep_extra = ep_extras_all();
    plan.castle_enemy = if run.quick() { vec![vec![Kind::Q], vec![Kind::R], vec![Kind::B], vec![Kind::N], vec![Kind::P]] } else {
        let ks = [Kind::Q, Kind::R, Kind::B, Kind::N, Kind::P];
        let mut v: Vec<Vec<Kind>> = ks.iter().map(|k| vec![*k]).collect();
        for (i, a) in ks.iter().enumerate() {
            for b in ks.iter().skip(i) {
                v.push(vec![*a, *b]);
            }
        }
        v
    };
    plan.castle_blockers = if run.quick() { vec![None] } else { vec![None, Some(Kind::N)] };
    plan.promo = true;
    if !run.quick() {
        plan.mat2 = sweep::men2_all();
    }
    let (s, t) = sweep::run_plan(&ctx, &plan);
    sweep::sample_states(run);
    for f in ["in_check", "double_check", "ep_capture_available", "ep_adjacent_but_illegal", "castling_available", "castling_right_but_unavailable", "promotion_while_in_check", "checkmate", "stalemate"] {
        run.require(f, 10);
    }
    run.assume("oracle: refchess (independent mailbox implementation of the FIDE rules, validated against published perft numbers at start-up)");
    run.assume("bounded: positions of the listed families only (see coverage.families); no symmetry reduction");
    report::finish(run, s, t.max(s), "every position of the listed families; engine move list (with flags) compared as a multiset with the reference legal moves, in-check verdict compared with the reference; distinct = positions are distinct by construction within a family (BFS de-duplication / odometer)", true)
}

fn generic_sweep(run: &Run, prop: &str) -> i32 {
    let keymap = KeyMap::new();
    let mon = Mon::for_prop(if prop == "SWEEPALL" { "ALL" } else { prop });
    let ctx = make_ctx(run, mon, &keymap);
    let mut plan = base_plan(run.quick());
    match prop {
        "C16" => {
            plan.heavy = Some(if run.quick() { (9, 10, 10) } else { (9, 10, 10) });
            plan.promo = true;
        }
        "C18" => {
            plan.promo = true;
            plan.castle_enemy = vec![vec![Kind::Q], vec![Kind::R], vec![Kind::P]];
            plan.disamb = vec![(Kind::N, 2, None), (Kind::R, 2, None), (Kind::B, 2, None), (Kind::Q, 2, None), (Kind::N, 2, Some(Kind::P)), (Kind::Q, 2, Some(Kind::R))];
            if !run.quick() {
                plan.disamb.extend([(Kind::N, 3, None), (Kind::Q, 3, None), (Kind::R, 3, None), (Kind::B, 3, None)]);
            }
        }
        "C20" => {
            plan.see_family = Some(if run.quick() { 2 } else { 3 });
            plan.promo = true;
        }
        _ => {}
    }
    let (s, t) = sweep::run_plan(&ctx, &plan);
    sweep::sample_states(run);
    let _ = Origin::Built(String::new());
    let _ = J::Null;
    report::finish(run, s, t.max(s), "position sweep", true)
}

/// Replay of the non-position case kinds (operation lists, sessions, scripts ...), dispatched by kind.
pub fn replay_other(_run: &Run, _kind: &str, _case: &J) -> Option<i32> {
    None
}
