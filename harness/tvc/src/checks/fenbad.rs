//! C06(b): the FEN reader on malformed input. Every call runs inside catch_unwind; the oracle is
//! "returns Ok or Err, never unwinds" plus "a board field whose ranks are not all exactly eight wide
//! is rejected" (independent width computation).

use crate::chess::game::Game;
use crate::report::Run;
use crate::util::{catch, par_for, J};
use std::sync::atomic::{AtomicU64, Ordering};

/// Independent judgement of a board field: 8 ranks, each describing exactly 8 squares with valid symbols.
fn board_field_ok(field: &str) -> bool {
    let ranks: Vec<&str> = field.split('/').collect();
    if ranks.len() != 8 {
        return false;
    }
    for r in ranks {
        let mut w = 0u32;
        for ch in r.chars() {
            if let Some(d) = ch.to_digit(10) {
                // the property speaks about widths only: a reader that tolerates the non-standard digits
                // 0 and 9 is judged by the width they describe
                w += d;
            } else if "pnbrqkPNBRQK".contains(ch) {
                w += 1;
            } else {
                return false;
            }
        }
        if w != 8 {
            return false;
        }
    }
    true
}

pub struct Tally {
    pub tried: AtomicU64,
    pub accepted: AtomicU64,
    pub rejected: AtomicU64,
}

fn try_one(run: &Run, t: &Tally, s: &str, family: &str) {
    t.tried.fetch_add(1, Ordering::Relaxed);
    let _ = family;
    let case = || J::obj(vec![("kind", J::s("fen")), ("fen", J::s(s)), ("family", J::s(family))]);
    match catch(|| Game::from_fen(s)) {
        Err(e) => run.violation("fen-reader-panic", format!("fen-reader-panic|{s}"), case(), format!("from_fen({s:?}) panicked: {e}")),
        Ok(Err(_)) => {
            t.rejected.fetch_add(1, Ordering::Relaxed);
        }
        Ok(Ok(g)) => {
            t.accepted.fetch_add(1, Ordering::Relaxed);
            let field = s.split_whitespace().next().unwrap_or("");
            if !board_field_ok(field) {
                run.violation("fen-bad-board-accepted", format!("fen-bad-board-accepted|{s}"), case(), format!("from_fen({s:?}) accepted a board field whose ranks are not all exactly eight squares wide"));
            }
            // what was accepted must be writable and re-readable without a crash
            match catch(|| g.to_fen()) {
                Err(e) => run.violation("fen-write-panic", format!("fen-write-panic|{s}"), case(), format!("to_fen of the game parsed from {s:?} panicked: {e}")),
                Ok(text) => {
                    if let Err(e) = catch(|| Game::from_fen(&text)) {
                        run.violation("fen-reader-panic", format!("fen-reader-panic|{text}"), case(), format!("from_fen of own output {text:?} panicked: {e}"));
                    }
                }
            }
        }
    }
}

fn spell_rank(w: usize, spelling: usize, lead: Option<char>) -> String {
    // a rank of total width w; `lead` is a piece letter occupying the first square (kings)
    let mut s = String::new();
    let mut rest = w;
    if let Some(c) = lead {
        if rest > 0 {
            s.push(c);
            rest -= 1;
        }
    }
    match spelling {
        0 => {
            // digits, greedy 8s
            while rest > 0 {
                let d = rest.min(8);
                s.push_str(&d.to_string());
                rest -= d;
            }
        }
        1 => {
            for _ in 0..rest {
                s.push('p');
            }
        }
        2 => {
            // mixed: alternate piece, digit
            let mut i = 0;
            while rest > 0 {
                if i % 2 == 0 {
                    s.push('N');
                    rest -= 1;
                } else {
                    let d = rest.min(3);
                    s.push_str(&d.to_string());
                    rest -= d;
                }
                i += 1;
            }
        }
        _ => {
            // the literal number as one token (9 is not a FEN digit)
            if rest > 0 {
                s.push_str(&rest.to_string());
            }
        }
    }
    s
}

pub fn run(run: &Run) -> (u64, u64) {
    let t = Tally { tried: AtomicU64::new(0), accepted: AtomicU64::new(0), rejected: AtomicU64::new(0) };
    let tail = " w - - 0 1";
    // (1) rank-width vectors
    let max_dev = if run.quick() { 2 } else { 3 };
    let mut vectors: Vec<[usize; 8]> = vec![];
    fn gen(v: &mut [usize; 8], i: usize, dev_left: usize, out: &mut Vec<[usize; 8]>) {
        if i == 8 {
            out.push(*v);
            return;
        }
        v[i] = 8;
        gen(v, i + 1, dev_left, out);
        if dev_left > 0 {
            for w in 1..=9 {
                if w != 8 {
                    v[i] = w;
                    gen(v, i + 1, dev_left - 1, out);
                }
            }
        }
        v[i] = 8;
    }
    gen(&mut [8; 8], 0, max_dev, &mut vectors);
    let before = t.tried.load(Ordering::Relaxed);
    par_for(vectors.len(), |i| {
        let v = vectors[i];
        for spelling in 0..4 {
            let mut ranks = vec![];
            for (ri, w) in v.iter().enumerate() {
                let lead = if ri == 0 { Some('k') } else if ri == 7 { Some('K') } else { None };
                ranks.push(spell_rank(*w, spelling, lead));
            }
            let s = format!("{}{}", ranks.join("/"), tail);
            let all8 = v.iter().all(|w| *w == 8);
            let tr0 = t.accepted.load(Ordering::Relaxed);
            let _ = tr0;
            try_one(run, &t, &s, "rank-widths");
            // positive direction: all-eight vectors in a valid spelling must be accepted
            if all8 && spelling != 3 {
                if let Ok(Err(e)) = catch(|| Game::from_fen(&s)) {
                    run.violation("fen-valid-rejected", format!("fen-valid-rejected|{s}"), J::obj(vec![("kind", J::s("fen")), ("fen", J::s(s.clone()))]), format!("well-formed {s:?} rejected: {e}"));
                }
            }
        }
    });
    let n1 = t.tried.load(Ordering::Relaxed) - before;
    run.family("FEN-RANK-WIDTHS", &format!("all width vectors in {{1..9}}^8 with at most {max_dev} ranks != 8 ({} vectors) x 4 spellings", vectors.len()), n1, n1, true, "accepted iff all widths are 8");
    // (2) single edits of base FENs
    let bases = [
        "rnbqkbnr/pppppppp/8/8/8/8/PPPPPPPP/RNBQKBNR w KQkq - 0 1",
        "r3k2r/p1ppqpb1/bn2pnp1/3PN3/1p2P3/2N2Q1p/PPPBBPPP/R3K2R w KQkq - 0 1",
        "8/2p5/3p4/KP5r/1R3p1k/8/4P1P1/8 b - - 12 34",
        "rnbqkbnr/ppp1p1pp/8/3pPp2/8/8/PPPP1PPP/RNBQKBNR w KQkq f6 0 3",
        "4k3/8/8/8/8/8/8/4K3 w - -",
        "7k/8/8/8/8/8/8/K7 b - - 99 4294967295",
    ];
    // (incl. characters that are numeric or alphabetic for Unicode but not ASCII: fullwidth, Arabic-Indic and superscript
    // digits, a vulgar fraction, a Roman numeral, a Cyrillic and a fullwidth letter)
    let alphabet: Vec<char> = "pnbrqkPNBRQK12345678 /-wb09aehx+é８٣²½Ⅷкｗ".chars().collect();
    let mut edits: Vec<String> = vec![];
    for b in bases {
        let cs: Vec<char> = b.chars().collect();
        for i in 0..=cs.len() {
            if i < cs.len() {
                let mut d = cs.clone();
                d.remove(i);
                edits.push(d.iter().collect());
            }
            for a in &alphabet {
                let mut ins = cs.clone();
                ins.insert(i, *a);
                edits.push(ins.iter().collect());
                if i < cs.len() && cs[i] != *a {
                    let mut sub = cs.clone();
                    sub[i] = *a;
                    edits.push(sub.iter().collect());
                }
            }
        }
        // truncations and field-count changes
        for k in 0..=cs.len() {
            edits.push(cs[..k].iter().collect());
        }
        let fields: Vec<&str> = b.split(' ').collect();
        for k in 0..=fields.len() {
            edits.push(fields[..k].join(" "));
        }
        edits.push(format!("{b} extra"));
        edits.push(format!("{b} 1 2 3"));
        edits.push(format!("  {b}  "));
        edits.push(b.replace(' ', "  "));
        edits.push(b.replace(' ', "\t"));
    }
    if !run.quick() {
        // all pairs of single substitutions on two short bases
        for b in ["4k3/8/8/8/8/8/8/4K3 w - - 0 1", "k7/8/8/8/8/8/8/7K b - e3 5 9"] {
            let cs: Vec<char> = b.chars().collect();
            let small: Vec<char> = "pK18/ -w9".chars().collect();
            for i in 0..cs.len() {
                for j in (i + 1)..cs.len() {
                    for a in &small {
                        for c in &small {
                            let mut d = cs.clone();
                            d[i] = *a;
                            d[j] = *c;
                            edits.push(d.iter().collect());
                        }
                    }
                }
            }
        }
    }
    let before = t.tried.load(Ordering::Relaxed);
    par_for(edits.len(), |i| try_one(run, &t, &edits[i], "single-edits"));
    let n2 = t.tried.load(Ordering::Relaxed) - before;
    run.family("FEN-EDITS", &format!("every single-character deletion, substitution and insertion over a {}-symbol alphabet at every position of {} base FENs, all truncations, field-count and spacing variants{}", alphabet.len(), bases.len(), if run.quick() { "" } else { "; all pairs of substitutions over 9 symbols on two short bases" }), n2, n2, true, "");
    // (3) counters
    let counters = ["0", "1", "007", "99", "100", "2147483647", "2147483648", "4294967295", "4294967296", "18446744073709551616", "-1", "+1", "1.5", "", "x"];
    let mut cstr = vec![];
    for a in counters {
        for b in counters {
            for side in ["w", "b"] {
                cstr.push(format!("4k3/8/8/8/8/8/8/4K3 {side} - - {a} {b}"));
            }
        }
    }
    let before = t.tried.load(Ordering::Relaxed);
    par_for(cstr.len(), |i| try_one(run, &t, &cstr[i], "counters"));
    let n3 = t.tried.load(Ordering::Relaxed) - before;
    run.family("FEN-COUNTERS", "15 x 15 halfmove / fullmove texts x 2 sides", n3, n3, true, "");
    // (4) all short strings over a 20-letter alphabet
    let sa: Vec<char> = "kKpP18/ w-bq9+\u{e9}a3N0".chars().collect();
    let maxlen = if run.quick() { 4 } else { 5 };
    let before = t.tried.load(Ordering::Relaxed);
    let firsts: Vec<char> = sa.clone();
    par_for(firsts.len() + 1, |i| {
        if i == firsts.len() {
            try_one(run, &t, "", "short-strings");
            return;
        }
        fn rec(run: &Run, t: &Tally, sa: &[char], cur: &mut String, left: usize) {
            try_one(run, t, cur, "short-strings");
            if left == 0 {
                return;
            }
            for c in sa {
                cur.push(*c);
                rec(run, t, sa, cur, left - 1);
                cur.pop();
            }
        }
        let mut cur = String::new();
        cur.push(firsts[i]);
        rec(run, &t, &sa, &mut cur, maxlen - 1);
    });
    let n4 = t.tried.load(Ordering::Relaxed) - before;
    run.family("FEN-SHORT-STRINGS", &format!("all strings of length <= {maxlen} over a {}-symbol alphabet", sa.len()), n4, n4, true, "");
    // (5) long inputs (a FEN followed by a comment, as in EPD files): a multi-byte character at every byte offset,
    // behind valid and behind invalid prefixes — the error path must cope with any text
    let mut longs: Vec<String> = vec![];
    for prefix in ["rnbqkbnr/pppppppp/8/8/8/8/PPPPPPPP/RNBQKBNR w KQkq - 0 1", "rnbqkbnr/pppppppp/8/8/8/8/PPPPPPPP/RNBQKBNR w KQkq - 0 1 ;", "8/8/8/8/8/8/8/8 x", "", "k7/8/8/8/8/8/8/K7 w - - 0 1 bm Kb2; id \"x\";"] {
        for pad in 0..=(if run.quick() { 140 } else { 300 }) {
            for ch in ["\u{e9}", "\u{20ac}", "\u{1F600}"] {
                longs.push(format!("{prefix}{}{ch}{}", "a".repeat(pad), " Er\u{f6}ffnung \u{2654}".repeat(3)));
            }
        }
    }
    for n in [100usize, 255, 256, 1000, 4096, 65_536] {
        longs.push("8/".repeat(n));
        longs.push(format!("{} w - - 0 1", "p".repeat(n)));
        longs.push(format!("4k3/8/8/8/8/8/8/4K3 w - - 0 {}", "9".repeat(n.min(400))));
    }
    let before = t.tried.load(Ordering::Relaxed);
    par_for(longs.len(), |i| try_one(run, &t, &longs[i], "long-inputs"));
    let n5 = t.tried.load(Ordering::Relaxed) - before;
    run.family("FEN-LONG-INPUTS", "5 prefixes x 0..=140 (thorough 300) ASCII pad characters x a 2-, 3- and 4-byte character, followed by more text; very long repetitions", n5, n5, true, "");
    // (6) material extremes: the reader builds the evaluation accumulators, so any number of any man must be readable
    // (or refused) without a crash
    let letters: Vec<char> = "PNBRQKpnbrqk".chars().collect();
    let board_of = |cells: &[char]| -> String {
        let mut out = String::new();
        for r in 0..8 {
            if r > 0 {
                out.push('/');
            }
            let mut gap = 0;
            for f in 0..8 {
                let c = cells[r * 8 + f];
                if c == '.' {
                    gap += 1;
                } else {
                    if gap > 0 {
                        out.push_str(&gap.to_string());
                        gap = 0;
                    }
                    out.push(c);
                }
            }
            if gap > 0 {
                out.push_str(&gap.to_string());
            }
        }
        out
    };
    let mut mats: Vec<String> = vec![];
    for &x in &letters {
        for n in 0..=64usize {
            let mut cells = vec!['.'; 64];
            for c in cells.iter_mut().take(n) {
                *c = x;
            }
            for side in ["w", "b"] {
                mats.push(format!("{} {side} - - 0 1", board_of(&cells)));
            }
            if n <= 62 {
                let mut c2 = cells.clone();
                c2[62] = 'K';
                c2[63] = 'k';
                mats.push(format!("{} w - - 0 1", board_of(&c2)));
                c2[62] = 'k';
                c2[63] = 'K';
                mats.push(format!("{} b - - 0 1", board_of(&c2)));
            }
        }
    }
    for &x in &letters {
        for &y in &letters {
            for n in (0..=64usize).step_by(8) {
                let cells: Vec<char> = (0..64).map(|i| if i < n { x } else { y }).collect();
                mats.push(format!("{} w - - 0 1", board_of(&cells)));
            }
        }
    }
    let before = t.tried.load(Ordering::Relaxed);
    par_for(mats.len(), |i| try_one(run, &t, &mats[i], "material"));
    let n6 = t.tried.load(Ordering::Relaxed) - before;
    run.family("FEN-MATERIAL", "each of the 12 man letters on the first n squares, n = 0..=64, both sides to move, with and without the two kings added; all ordered pairs of letters splitting the board at every rank", n6, n6, true, "");
    let n4 = n4 + n5 + n6;
    run.count("fen_strings_tried", t.tried.load(Ordering::Relaxed));
    run.count("fen_strings_accepted", t.accepted.load(Ordering::Relaxed));
    run.count("fen_strings_rejected", t.rejected.load(Ordering::Relaxed));
    run.sample(J::obj(vec![("family", J::s("FEN-RANK-WIDTHS")), ("fen", J::s("kppppppp/pppppppp/ppppppppp/ppppppp/pppppppp/pppppppp/pppppppp/Kppppppp w - - 0 1")), ("expected", J::s("Err"))]));
    run.sample(J::obj(vec![("family", J::s("FEN-COUNTERS")), ("fen", J::s("4k3/8/8/8/8/8/8/4K3 w - - 0 0")), ("expected", J::s("Ok or Err, no panic"))]));
    let n = n1 + n2 + n3 + n4;
    (n, n)
}

pub fn replay(run: &Run, case: &J) {
    let s = case.get("fen").and_then(|x| x.as_str()).unwrap_or("");
    let t = Tally { tried: AtomicU64::new(0), accepted: AtomicU64::new(0), rejected: AtomicU64::new(0) };
    try_one(run, &t, s, "replay");
    println!("from_fen({s:?}): accepted={} rejected={}", t.accepted.load(Ordering::Relaxed), t.rejected.load(Ordering::Relaxed));
}
