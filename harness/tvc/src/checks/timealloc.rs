//! C14 part 1: the time allocation on a dense grid of clock situations, through TimeStrategy::new
//! and the read-only accessor of hook H1.

use crate::chess::game::Game;
use crate::engine::options::EngineOptions;
use crate::engine::search::time_control::TimeStrategy;
use crate::engine::search::{Clocks, TimeControl};
use crate::report::Run;
use crate::util::{catch, par_for, J};
use std::sync::atomic::{AtomicU64, Ordering};
use std::time::Duration;

pub fn remaining_grid(quick: bool) -> Vec<u64> {
    let mut v: Vec<u64> = (1..=1000).collect();
    let mut x = 1000f64;
    let f = if quick { 1.05 } else { 1.01 };
    while x < 4.0 * 3600.0 * 1000.0 {
        x *= f;
        v.push(x as u64);
    }
    v.push(4 * 3600 * 1000);
    v.dedup();
    v
}

fn limits(white_to_move: bool, remaining: u64, inc: u64, mtg: Option<u32>, overhead: u64, both: bool) -> Result<(Duration, Duration), String> {
    let game = if white_to_move { Game::from_fen("4k3/8/8/8/8/8/4P3/4K3 w - - 0 1").unwrap() } else { Game::from_fen("4k3/4p3/8/8/8/8/8/4K3 b - - 0 1").unwrap() };
    let mine = Some(Duration::from_millis(remaining));
    let myinc = if inc > 0 { Some(Duration::from_millis(inc)) } else { None };
    // the opponent's clock is given as a decoy value that would break the bound if it were used
    let other = if both { Some(Duration::from_millis(remaining * 7 + 100_000)) } else { None };
    let otherinc = if both { Some(Duration::from_millis(inc * 5 + 60_000)) } else { None };
    let clocks = if white_to_move {
        Clocks { white_clock: mine, black_clock: other, white_increment: myinc, black_increment: otherinc, moves_to_go: mtg }
    } else {
        Clocks { white_clock: other, black_clock: mine, white_increment: otherinc, black_increment: myinc, moves_to_go: mtg }
    };
    let options = EngineOptions { move_overhead: overhead as usize, ..EngineOptions::default() };
    catch(|| {
        let (ts, _c) = TimeStrategy::new(&game, &TimeControl::Clocks(clocks), &options);
        ts.verif_limits()
    })
}

fn check_tuple(run: &Run, w: bool, rem: u64, inc: u64, mtg: Option<u32>, oh: u64, both: bool) {
    let case = || J::obj(vec![("kind", J::s("clock")), ("white_to_move", J::Bool(w)), ("remaining_ms", J::i(rem)), ("increment_ms", J::i(inc)), ("movestogo", J::i(mtg.map(i64::from).unwrap_or(-1))), ("overhead_ms", J::i(oh)), ("both_clocks", J::Bool(both))]);
    let key = format!("rem {rem} inc {inc} mtg {mtg:?} overhead {oh} white {w} both {both}");
    match limits(w, rem, inc, mtg, oh, both) {
        Err(e) => run.violation("time-alloc-panic", format!("time-alloc-panic|{key}"), case(), format!("TimeStrategy::new panicked for {key}: {e}")),
        Ok((soft, hard)) => {
            run.distinct_outcome_sig((soft.as_millis() as u64) << 32 | hard.as_millis() as u64, || format!("soft {} ms hard {} ms", soft.as_millis(), hard.as_millis()));
            // hard <= (remaining - overhead) / 2, tolerance 1 ms (f32 seconds arithmetic)
            let bound_us = (rem - oh) * 1000 / 2 + 1000;
            if hard.as_micros() as u64 > bound_us {
                run.violation("hard-limit-too-large", format!("hard-limit|{key}"), case(), format!("{key}: hard limit {:?} exceeds half of the remaining time after overhead ({} ms)", hard, (rem - oh) / 2));
            }
            if soft > hard + Duration::from_micros(1) {
                run.violation("soft-above-hard", format!("soft-above-hard|{key}"), case(), format!("{key}: soft limit {soft:?} > hard limit {hard:?}"));
            }
        }
    }
}

pub fn run(run: &Run) -> (u64, u64) {
    let rems = remaining_grid(run.quick());
    let incs = [0u64, 1, 10, 100, 1000, 10_000, 60_000];
    let mtgs = [None, Some(1u32), Some(2), Some(5), Some(40), Some(200), Some(65_535), Some(u32::MAX)];
    let ohs = [0u64, 1, 10, 100, 1000];
    let n = AtomicU64::new(0);
    par_for(rems.len(), |i| {
        let rem = rems[i];
        let mut c = 0;
        for inc in incs {
            for mtg in mtgs {
                for oh in ohs {
                    if oh > rem / 2 {
                        continue;
                    }
                    for w in [true, false] {
                        for both in [false, true] {
                            check_tuple(run, w, rem, inc, mtg, oh, both);
                            c += 1;
                        }
                    }
                }
            }
        }
        n.fetch_add(c, Ordering::Relaxed);
    });
    let a = n.load(Ordering::Relaxed);
    run.family("CLOCK-GRID", &format!("remaining in {{1..1000 ms step 1, then x{} up to 4 h}} ({} values) x increment {{0,1,10,100,1000,10000,60000}} x movestogo {{none,1,2,5,40,200}} x overhead {{0,1,10,100,1000}} (<= remaining/2) x side x (own clock only | both clocks, the other one a decoy)", if run.quick() { "1.05" } else { "1.01" }, rems.len()), a, a, true, "");
    // movetime is used as given
    let mut b = 0;
    for t in (0..=5000u64).chain([10_000, 60_000, 3_600_000]) {
        for oh in [0u64, 100, 1000] {
            b += 1;
            let game = Game::new();
            let options = EngineOptions { move_overhead: oh as usize, ..EngineOptions::default() };
            match catch(|| TimeStrategy::new(&game, &TimeControl::ExactTime(Duration::from_millis(t)), &options).0.verif_limits()) {
                Ok((s, h)) if s != Duration::from_millis(t) || h != Duration::from_millis(t) => run.violation("movetime-not-as-given", format!("movetime|{t}|{oh}"), J::obj(vec![("kind", J::s("movetime")), ("ms", J::i(t)), ("overhead_ms", J::i(oh))]), format!("movetime {t} ms gives limits {s:?} / {h:?}")),
                Err(e) => run.violation("time-alloc-panic", format!("movetime-panic|{t}"), J::obj(vec![("kind", J::s("movetime")), ("ms", J::i(t)), ("overhead_ms", J::i(oh))]), e),
                _ => {}
            }
        }
    }
    run.family("MOVETIME", "movetime 0..5000 ms step 1, 10 s, 60 s, 1 h x overhead {0,100,1000}", b, b, true, "soft = hard = movetime exactly");
    run.sample(J::obj(vec![("remaining_ms", J::i(400)), ("increment_ms", J::i(0)), ("movestogo", J::i(1)), ("overhead_ms", J::i(0)), ("bound_hard_ms", J::i(200))]));
    (a + b, a + b)
}

/// The same bound through the real `go` command: parser, go handler (which clock belongs to which side,
/// which increment, moves to go, the configured Move Overhead) and TimeStrategy::new; the limits are
/// read through hook H5.
pub fn via_go(run: &'static Run) -> (u64, u64) {
    use crate::ucidrv::{Drv, Wait};
    let rems: Vec<u64> = if run.quick() { vec![1, 2, 10, 57, 100, 200, 999, 1000, 5000, 30_000, 60_000, 600_000, 3_600_000] } else { remaining_grid(true).into_iter().step_by(9).collect() };
    let incs = [0u64, 100, 5000];
    let mtgs = [None, Some(1u32), Some(3), Some(40), Some(u32::MAX)];
    let ohs = [0u64, 10, 1000];
    let n: &'static AtomicU64 = Box::leak(Box::new(AtomicU64::new(0)));
    let items: Vec<(u64, u64)> = rems.iter().flat_map(|r| ohs.iter().filter(move |o| **o <= r / 2).map(move |o| (*r, *o))).collect();
    par_for(items.len(), |i| {
        let (rem, oh) = items[i];
        let work = move || {
            let mut d = Drv::new(1).unwrap();
            let _ = d.send(&format!("setoption name Move Overhead value {oh}"));
            for white in [true, false] {
                let _ = d.send(if white { "position fen 4k3/8/8/8/8/8/4P3/4K3 w - - 0 1" } else { "position fen 4k3/4p3/8/8/8/8/8/4K3 b - - 0 1" });
                for inc in incs {
                    for mtg in mtgs {
                        for decoy in [0u8, 1, 2] {
                            // the other side's clock: absent, huge, tiny
                            let (orem, oinc) = match decoy {
                                0 => (None, None),
                                1 => (Some(rem * 50 + 1_000_000), Some(inc * 20 + 100_000)),
                                _ => (Some(1u64), Some(0u64)),
                            };
                            let mut line = String::from("go");
                            let (mt, ot, mi, oi) = if white { ("wtime", "btime", "winc", "binc") } else { ("btime", "wtime", "binc", "winc") };
                            line.push_str(&format!(" {mt} {rem}"));
                            if let Some(o) = orem {
                                line.push_str(&format!(" {ot} {o}"));
                            }
                            if inc > 0 {
                                line.push_str(&format!(" {mi} {inc}"));
                            }
                            if let Some(o) = oinc {
                                line.push_str(&format!(" {oi} {o}"));
                            }
                            if let Some(m) = mtg {
                                line.push_str(&format!(" movestogo {m}"));
                            }
                            // a move time on the same line does not lift the clock's bound
                            if decoy == 2 && inc == 100 {
                                line = format!("go movetime 6000000{}", &line[2..]);
                            } else if decoy == 1 && inc == 100 {
                                line.push_str(" movetime 6000000");
                            }
                            line.push_str(" depth 1");
                            n.fetch_add(1, Ordering::Relaxed);
                            let case = J::obj(vec![("kind", J::s("clock-via-go")), ("overhead_ms", J::i(oh)), ("white_to_move", J::Bool(white)), ("line", J::s(line.clone()))]);
                            let key = format!("overhead {oh} white {white} `{line}`");
                            crate::verif_hooks::take_limits();
                            if let Err(e) = d.send(&line) {
                                run.violation("go-with-clocks-failed", format!("go-with-clocks-failed|{key}"), case, format!("{key}: {e}"));
                                return;
                            }
                            let lim = crate::verif_hooks::take_limits();
                            if d.wait_search(std::time::Duration::from_secs(60)) != Wait::Finished {
                                run.violation("go-with-clocks-failed", format!("go-with-clocks-search|{key}"), case, format!("{key}: the search did not finish"));
                                return;
                            }
                            d.take();
                            let Some((soft, hard)) = lim.last().copied() else {
                                run.machinery_error(format!("{key}: hook H5 reported no limits"));
                                return;
                            };
                            // the command loop must arrive at the limits of the mover's own clock situation, whatever else the
                            // line says about the other side
                            // (only without a configured overhead: which layer deducts the overhead is the implementation's business)
                            match limits(white, rem, inc, mtg, oh, false) {
                                Ok(direct) if oh == 0 && !line.contains("movetime") && direct != (soft, hard) => {
                                    run.violation("go-limits-differ-from-clock", format!("go-limits-differ|{key}"), case.clone(), format!("{key}: the go command leads to limits {:?}, the mover's clock situation (remaining {rem}, increment {inc}, movestogo {mtg:?}, overhead {oh}) gives {:?}", (soft, hard), direct));
                                }
                                _ => {}
                            }
                            let bound_us = (rem - oh) * 1000 / 2 + 1000;
                            if hard.as_micros() as u64 > bound_us {
                                run.violation("hard-limit-too-large", format!("hard-limit-via-go|{key}"), case.clone(), format!("{key}: hard limit {hard:?} exceeds half of the mover's remaining time after overhead ({} ms)", (rem - oh) / 2));
                            }
                            if soft > hard + Duration::from_micros(1) {
                                run.violation("soft-above-hard", format!("soft-above-hard-via-go|{key}"), case, format!("{key}: soft {soft:?} > hard {hard:?}"));
                            }
                        }
                    }
                }
            }
        };
        if crate::util::with_timeout(300, work).is_none() {
            run.violation("go-with-clocks-failed", format!("go-with-clocks-blocked|rem {rem} overhead {oh}"), J::obj(vec![("kind", J::s("clock-via-go")), ("overhead_ms", J::i(oh)), ("line", J::s(format!("(family for remaining {rem})")))]), "the command loop blocked or the helper thread died".into());
        }
    });
    // an overstepped clock is reported with a negative number: the go must still be answered
    {
        let work = move || {
            let mut d = Drv::new(1).unwrap();
            for (pos, lines) in [
                ("position fen 4k3/8/8/8/8/8/4P3/4K3 w - - 0 1", vec!["go wtime -200 btime 5000 winc 100 binc 100 depth 1", "go wtime -1 btime -1 depth 1", "go btime 5000 wtime -30000 movestogo 5 depth 1", "go movetime -5 depth 1"]),
                ("position fen 4k3/4p3/8/8/8/8/8/4K3 b - - 0 1", vec!["go wtime 5000 btime -200 winc 100 binc -100 depth 1", "go btime -1 depth 1"]),
            ] {
                let _ = d.send(pos);
                for line in lines {
                    n.fetch_add(1, Ordering::Relaxed);
                    let case = J::obj(vec![("kind", J::s("clock-via-go")), ("overhead_ms", J::i(0)), ("line", J::s(line))]);
                    let r = d.send(line);
                    let w = d.wait_search(std::time::Duration::from_secs(60));
                    let bm = d.take().iter().filter(|l| l.starts_with("bestmove")).count();
                    if r.is_err() || w != Wait::Finished || bm != 1 {
                        run.violation("go-with-clocks-failed", format!("go-negative-clock|{line}"), case, format!("`{line}` (an overstepped clock): result {r:?}, search {w:?}, {bm} bestmove line(s)"));
                    }
                }
            }
        };
        if crate::util::with_timeout(200, work).is_none() {
            run.violation("go-with-clocks-failed", "go-negative-clock|blocked".into(), J::obj(vec![("kind", J::s("clock-via-go")), ("overhead_ms", J::i(0)), ("line", J::s("(negative clock family)"))]), "the command loop blocked".into());
        }
    }
    // the same clock situation phrased in every field order (and with extra blanks / a ponder-less `infinite`-free
    // mix of optional fields): the limits must not depend on the phrasing
    {
        let fields = ["wtime 1000", "btime 300000", "winc 100", "binc 7000", "movestogo 3", "depth 1"];
        let mut perms: Vec<Vec<usize>> = vec![];
        fn permute(k: usize, cur: &mut Vec<usize>, used: &mut [bool], out: &mut Vec<Vec<usize>>) {
            if cur.len() == k {
                out.push(cur.clone());
                return;
            }
            for i in 0..k {
                if !used[i] {
                    used[i] = true;
                    cur.push(i);
                    permute(k, cur, used, out);
                    cur.pop();
                    used[i] = false;
                }
            }
        }
        permute(fields.len(), &mut vec![], &mut [false; 6], &mut perms);
        let chunks: Vec<Vec<Vec<usize>>> = perms.chunks(45).map(|c| c.to_vec()).collect();
        par_for(chunks.len(), |ci| {
            let chunk = chunks[ci].clone();
            let work = move || {
                let mut d = Drv::new(1).unwrap();
                let _ = d.send("setoption name Move Overhead value 10");
                for white in [true, false] {
                    let _ = d.send(if white { "position fen 4k3/8/8/8/8/8/4P3/4K3 w - - 0 1" } else { "position fen 4k3/4p3/8/8/8/8/8/4K3 b - - 0 1" });
                    let mut reference: Option<(Duration, Duration)> = None;
                    for perm in &chunk {
                        for sep in [" ", "  "] {
                            let line = format!("go{sep}{}", perm.iter().map(|i| fields[*i]).collect::<Vec<_>>().join(sep));
                            n.fetch_add(1, Ordering::Relaxed);
                            crate::verif_hooks::take_limits();
                            let case = J::obj(vec![("kind", J::s("clock-via-go")), ("overhead_ms", J::i(10)), ("white_to_move", J::Bool(white)), ("line", J::s(line.clone()))]);
                            if let Err(e) = d.send(&line) {
                                run.violation("go-with-clocks-failed", format!("go-with-clocks-failed|{line}"), case, format!("`{line}`: {e}"));
                                return;
                            }
                            let lim = crate::verif_hooks::take_limits();
                            if d.wait_search(std::time::Duration::from_secs(60)) != Wait::Finished {
                                run.violation("go-with-clocks-failed", format!("go-with-clocks-search|{line}"), case, "the search did not finish".into());
                                return;
                            }
                            d.take();
                            let Some(l) = lim.last().copied() else { continue };
                            let (rem, oh) = if white { (1000u64, 10u64) } else { (300_000, 10) };
                            if l.1.as_micros() as u64 > (rem - oh) * 1000 / 2 + 1000 {
                                run.violation("hard-limit-too-large", format!("hard-limit-via-go|white {white} `{line}`"), case.clone(), format!("white to move {white}, `{line}`: hard limit {:?} exceeds half of the mover's remaining time ({} ms)", l.1, (rem - oh) / 2));
                            }
                            match reference {
                                None => reference = Some(l),
                                Some(r) if r != l => {
                                    run.violation("limits-depend-on-phrasing", format!("limits-depend-on-phrasing|white {white} `{line}`"), case, format!("white to move {white}: `{line}` gives limits {:?}, another order of the same fields gave {:?}", l, r));
                                    return;
                                }
                                _ => {}
                            }
                        }
                    }
                }
            };
            if crate::util::with_timeout(300, work).is_none() {
                run.violation("go-with-clocks-failed", format!("go-with-clocks-blocked|permutation chunk {ci}"), J::obj(vec![("kind", J::s("clock-via-go")), ("overhead_ms", J::i(10)), ("line", J::s("(field-order family)"))]), "the command loop blocked or the helper thread died".into());
            }
        });
    }
    let a = n.load(Ordering::Relaxed);
    run.family("CLOCK-VIA-GO", &format!("remaining {:?} ms x overhead {{0,10,1000}} (<= remaining/2, set through setoption) x side to move x increment {{0,100,5000}} x movestogo {{none,1,3,40,4294967295}} x other side's clock {{absent, huge, tiny}}: sent as `go wtime .. btime .. depth 1` to the real command loop; limits read through hook H5; plus one situation phrased in all 720 orders of its six fields, with single and double blanks, for both sides", rems), a, a, true, "");
    (a, a)
}

/// Option histories: every sequence of up to three configuration commands before a clock-limited `go`; the limits
/// must be those of a fresh engine that was only told the Move Overhead in force (the last one set).
pub fn option_order(run: &'static Run) -> (u64, u64) {
    use crate::ucidrv::{Drv, Wait};
    let alphabet: Vec<(&'static str, Option<u64>)> = vec![
        ("setoption name Move Overhead value 0", Some(0)),
        ("setoption name Move Overhead value 100", Some(100)),
        ("setoption name Move Overhead value 1000", Some(1000)),
        ("setoption name Hash value 1", None),
        ("setoption name Hash value 16", None),
        ("setoption name Threads value 1", None),
        ("ucinewgame", None),
        ("isready", None),
    ];
    let k = alphabet.len();
    let mut seqs: Vec<Vec<usize>> = vec![vec![]];
    let mut layer: Vec<Vec<usize>> = vec![vec![]];
    for _ in 0..3 {
        let mut next = vec![];
        for s in &layer {
            for a in 0..k {
                let mut t = s.clone();
                t.push(a);
                next.push(t);
            }
        }
        seqs.extend(next.iter().cloned());
        layer = next;
    }
    let gos = ["go wtime 5000 btime 5000 movestogo 1 depth 1", "go wtime 3000 btime 3000 winc 2000 binc 2000 depth 1"];
    let n: &'static AtomicU64 = Box::leak(Box::new(AtomicU64::new(0)));
    let limits_of = move |lines: &[&str], go: &str| -> Result<(Duration, Duration), String> {
        let mut d = Drv::new(1)?;
        for l in lines {
            d.send(l)?;
        }
        d.send("position startpos")?;
        crate::verif_hooks::take_limits();
        d.send(go)?;
        let lim = crate::verif_hooks::take_limits();
        if d.wait_search(std::time::Duration::from_secs(60)) != Wait::Finished {
            return Err("the search did not finish".into());
        }
        d.take();
        lim.last().copied().ok_or_else(|| "hook H5 reported no limits".to_string())
    };
    // references: a fresh engine told only the overhead
    let mut reference: std::collections::HashMap<(u64, usize), (Duration, Duration)> = std::collections::HashMap::new();
    for oh in [0u64, 100, 1000] {
        for (gi, go) in gos.iter().enumerate() {
            let line = format!("setoption name Move Overhead value {oh}");
            match limits_of(&[line.as_str()], go) {
                Ok(l) => {
                    reference.insert((oh, gi), l);
                }
                Err(e) => {
                    run.machinery_error(format!("OPTION-ORDER reference (overhead {oh}, `{go}`): {e}"));
                    return (0, 0);
                }
            }
        }
    }
    let reference: &'static std::collections::HashMap<(u64, usize), (Duration, Duration)> = Box::leak(Box::new(reference));
    let seqs: &'static Vec<Vec<usize>> = Box::leak(Box::new(seqs));
    let alphabet: &'static Vec<(&'static str, Option<u64>)> = Box::leak(Box::new(alphabet));
    par_for(seqs.len(), |i| {
        let seq = &seqs[i];
        let lines: Vec<&str> = seq.iter().map(|a| alphabet[*a].0).collect();
        let oh = seq.iter().filter_map(|a| alphabet[*a].1).last().unwrap_or(0);
        for (gi, go) in gos.iter().enumerate() {
            n.fetch_add(1, Ordering::Relaxed);
            let script = format!("{} ; position startpos ; {go}", lines.join(" ; "));
            let case = J::obj(vec![("kind", J::s("option-order")), ("lines", J::Arr(lines.iter().map(|l| J::s(*l)).collect())), ("go", J::s(*go)), ("overhead_ms", J::i(oh))]);
            let lines2: Vec<String> = lines.iter().map(|l| l.to_string()).collect();
            let go2 = go.to_string();
            let r = crate::util::with_timeout(120, move || {
                let ls: Vec<&str> = lines2.iter().map(|l| l.as_str()).collect();
                limits_of(&ls, &go2)
            });
            match r {
                None => run.violation("go-with-clocks-failed", format!("option-order-blocked|{script}"), case, format!("[{script}]: the command loop blocked")),
                Some(Err(e)) => run.violation("go-with-clocks-failed", format!("option-order-failed|{script}"), case, format!("[{script}]: {e}")),
                Some(Ok(l)) => {
                    run.distinct_outcome(format!("{l:?}"));
                    let want = reference[&(oh, gi)];
                    if l != want {
                        run.violation("limits-depend-on-option-history", format!("option-order|{script}"), case, format!("[{script}]: limits {l:?}; a fresh engine told only `Move Overhead {oh}` (the value in force) arrives at {want:?}"));
                    }
                }
            }
        }
    });
    let a = n.load(Ordering::Relaxed);
    run.family("OPTION-ORDER", "every sequence of <= 3 commands over {Move Overhead 0/100/1000, Hash 1/16, Threads 1, ucinewgame, isready} (585 sequences) followed by two clock-limited go commands whose cap is the binding term; limits (hook H5) compared with a fresh engine told only the overhead in force", a, a, true, "");
    (a, a)
}

/// Part 2: the real search under a virtual clock that advances with the node count (1 microsecond per
/// node, slower than the checked build measures): virtual time at return < remaining time.
pub fn virtual_clock_runs(run: &Run) -> (u64, u64) {
    use crate::engine::search::PersistentState;
    use crate::session::{run_search, Env, GameSpec, Spec, Tc, DEFAULT_NODE_BUDGET};
    use crate::verif_hooks::Clock;
    // the last two: capture-search explosions (the limit must also be observed inside one quiescence tree)
    let positions = ["rnbqkbnr/pppppppp/8/8/8/8/PPPPPPPP/RNBQKBNR w KQkq - 0 1", "r3k2r/p1ppqpb1/bn2pnp1/3PN3/1p2P3/2N2Q1p/PPPBBPPP/R3K2R b KQkq - 0 1", "8/2p5/3p4/KP5r/1R3p1k/8/4P1P1/8 w - - 0 1", "q2k2q1/2nqn2b/1n1P1n1b/2rnr2Q/1NQ1QN1Q/3Q3B/2RQR2B/Q2K2Q1 w - - 0 1", "R6R/3Q4/1Q4Q1/4Q3/2Q4Q/Q4Q2/pp1Q4/kBNN1KB1 w - - 0 1"];
    let rems: Vec<u64> = if run.quick() { (200..=2000).step_by(300).collect() } else { (200..=2000).step_by(50).chain([5000, 60_000]).collect() };
    let mut items = vec![];
    for p in positions {
        for rem in &rems {
            for inc in [0u64, 1000] {
                for mtg in [None, Some(1u32), Some(40)] {
                    for oh in [0usize, 50] {
                        if oh as u64 > rem / 2 {
                            continue;
                        }
                        items.push((p, *rem, inc, mtg, oh));
                    }
                }
            }
        }
    }
    let n = AtomicU64::new(0);
    let nodes = AtomicU64::new(0);
    par_for(items.len(), |i| {
        let (p, rem, inc, mtg, oh) = items[i];
        let gs = GameSpec::fen(p);
        let (g, root) = gs.build().unwrap();
        let white = p.contains(" w ");
        let (mine, other) = (Some(rem), Some(rem * 9 + 77_000));
        let tc = if white { Tc::Clocks(mine, other, Some(inc), Some(60_000), mtg) } else { Tc::Clocks(other, mine, Some(60_000), Some(inc), mtg) };
        let spec = Spec { depth: None, tc, overhead_ms: oh };
        let mut ps = PersistentState::new(1);
        let o = run_search(&mut ps, &g, &spec, &Env::Clock(Clock::PerNode(1000)), DEFAULT_NODE_BUDGET);
        n.fetch_add(1, Ordering::Relaxed);
        nodes.fetch_add(o.nodes_max, Ordering::Relaxed);
        let case = || J::obj(vec![("kind", J::s("virtual-clock")), ("fen", J::s(p)), ("remaining_ms", J::i(rem)), ("increment_ms", J::i(inc)), ("movestogo", J::i(mtg.map(i64::from).unwrap_or(-1))), ("overhead_ms", J::i(oh as i64))]);
        let key = format!("{p} rem {rem} inc {inc} mtg {mtg:?} overhead {oh}");
        if let Err(e) = crate::session::best_is_legal(&root, &o.best) {
            run.violation("timed-search-failed", format!("timed-search|{key}"), case(), format!("{key}: {e}"));
            return;
        }
        let used_ms = o.clock_ns / 1_000_000;
        if used_ms >= rem {
            run.violation("flagged-on-virtual-clock", format!("flag|{key}"), case(), format!("{key}: the search returned after {used_ms} ms of virtual time (1 microsecond per node, {} nodes) with {rem} ms on the clock", o.nodes_max));
        }
    });
    let a = n.load(Ordering::Relaxed);
    run.family("VIRTUAL-CLOCK", &format!("5 positions (two capture-search explosions) x remaining {:?} ms x increment {{0,1000}} x movestogo {{none,1,40}} x overhead {{0,50}}; real search, clock = nodes x 1 microsecond", rems), a, nodes.load(Ordering::Relaxed) / 10_000, true, "virtual time at return < remaining");
    (a, a)
}

pub fn replay(run: &'static Run, case: &J) {
    if case.get("kind").and_then(|x| x.as_str()) == Some("option-order") {
        use crate::ucidrv::{Drv, Wait};
        let lines: Vec<String> = case.get("lines").and_then(|x| x.as_arr()).map(|a| a.iter().filter_map(|l| l.as_str().map(|s| s.to_string())).collect()).unwrap_or_default();
        let go = case.get("go").and_then(|x| x.as_str()).unwrap_or("go depth 1").to_string();
        let oh = case.get("overhead_ms").and_then(|x| x.as_i64()).unwrap_or(0);
        let run_one = |ls: &[String]| -> Option<(Duration, Duration)> {
            let mut d = Drv::new(1).ok()?;
            for l in ls {
                println!("> {l}");
                let _ = d.send(l);
            }
            let _ = d.send("position startpos");
            crate::verif_hooks::take_limits();
            println!("> {go}");
            let _ = d.send(&go);
            let lim = crate::verif_hooks::take_limits();
            if d.wait_search(std::time::Duration::from_secs(60)) != Wait::Finished {
                return None;
            }
            lim.last().copied()
        };
        let got = run_one(&lines);
        println!("--- fresh engine, overhead {oh} only");
        let want = run_one(&[format!("setoption name Move Overhead value {oh}")]);
        println!("limits after the history: {got:?}; fresh engine: {want:?}");
        if got != want {
            run.violation("limits-depend-on-option-history", String::new(), J::Null, format!("limits {got:?} vs {want:?}"));
        }
        return;
    }
    if case.get("kind").and_then(|x| x.as_str()) == Some("clock-via-go") {
        println!("re-running the CLOCK-VIA-GO family (a few seconds); stored line: {:?}", case.get("line"));
        via_go(run);
        return;
    }
    let gi = |k: &str| case.get(k).and_then(|x| x.as_i64()).unwrap_or(0);
    let gb = |k: &str| matches!(case.get(k), Some(J::Bool(true)));
    if case.get("kind").and_then(|x| x.as_str()) == Some("clock") {
        let mtg = if gi("movestogo") < 0 { None } else { Some(gi("movestogo") as u32) };
        println!("limits: {:?}", limits(gb("white_to_move"), gi("remaining_ms") as u64, gi("increment_ms") as u64, mtg, gi("overhead_ms") as u64, gb("both_clocks")));
        check_tuple(run, gb("white_to_move"), gi("remaining_ms") as u64, gi("increment_ms") as u64, mtg, gi("overhead_ms") as u64, gb("both_clocks"));
    }
}
