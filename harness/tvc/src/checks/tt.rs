//! C19 (E5): explicit-state search over the real TranspositionTable<SearchTranspositionTableData>.
//! The table cannot be cloned, so a state is the operation history that reaches it and is rebuilt by
//! replay on a fresh table; canonical key = (size, generation, occupied, probe result of every
//! alphabet key) — complete, because keys outside the alphabet are never inserted.

use crate::chess::zobrist::ZobristHash;
use crate::engine::eval::Eval;
use crate::engine::search::transposition::{NodeBound, SearchTranspositionTable, SearchTranspositionTableData};
use crate::engine::transposition_table::TTOverwriteable;
use crate::report::Run;
use crate::util::{catch, par_for, J};
use std::collections::HashSet;
use std::sync::Mutex;

#[derive(Clone, Copy, Debug, PartialEq, Eq, Hash)]
pub enum Op {
    Insert { key: usize, depth: u8, bound: u8 },
    NewSearch,
    Reset,
    Resize(usize),
}

impl Op {
    fn text(&self) -> String {
        match self {
            Op::Insert { key, depth, bound } => format!("insert(k{key},d{depth},{})", ["exact", "upper", "lower"][*bound as usize]),
            Op::NewSearch => "new-search".into(),
            Op::Reset => "reset".into(),
            Op::Resize(s) => format!("resize({s})"),
        }
    }
    fn parse(s: &str) -> Option<Op> {
        if s == "new-search" {
            return Some(Op::NewSearch);
        }
        if s == "reset" {
            return Some(Op::Reset);
        }
        if let Some(r) = s.strip_prefix("resize(") {
            return r.trim_end_matches(')').parse().ok().map(Op::Resize);
        }
        let r = s.strip_prefix("insert(k")?.trim_end_matches(')');
        let parts: Vec<&str> = r.split(',').collect();
        Some(Op::Insert { key: parts[0].parse().ok()?, depth: parts[1].trim_start_matches('d').parse().ok()?, bound: ["exact", "upper", "lower"].iter().position(|b| *b == parts[2])? as u8 })
    }
}

// k0..k2 share a slot in the 1 MB and 2 MB tables of the implementation under test; k3 has a slot of its own that
// differs between table sizes (so that anything remembered about it across a resize is wrong). The model does not
// rely on this: slot classes are measured through the public API.
// (k0 is the key 0: every 64-bit value is a key)
pub const KEYS: [u64; 4] = [0, 131_072, 2 * 131_072, 6 + 65_536];

fn bound_of(b: u8) -> NodeBound {
    match b {
        0 => NodeBound::Exact,
        1 => NodeBound::Upper,
        _ => NodeBound::Lower,
    }
}

fn data(key: usize, depth: u8, bound: u8, age: u8) -> SearchTranspositionTableData {
    SearchTranspositionTableData { bound: bound_of(bound), eval: Eval((key as i16) * 100 + i16::from(depth) * 10 + i16::from(bound)), depth, age, best_move: None }
}

type Entry = (usize, u8, u8, u8); // key index, depth, bound, age

#[derive(Clone, Debug)]
struct Model {
    size: usize,
    generation: u8,
    /// slot class of each key for the current size (derived through the public API)
    class: [usize; 4],
    /// content per slot class
    slots: [Option<Entry>; 4],
}

/// Partition the alphabet keys into slots for a table size, using only insert/get: two keys share a
/// slot iff inserting the second (different age) makes the first unretrievable.
fn classes_for(size: usize) -> Result<[usize; 4], String> {
    let mut class = [0usize, 1, 2, 3];
    for i in 0..4 {
        for j in 0..i {
            let shared = catch(|| {
                let mut t = SearchTranspositionTable::new(size);
                t.insert(&ZobristHash(KEYS[j]), data(j, 1, 1, 0));
                t.insert(&ZobristHash(KEYS[i]), data(i, 1, 1, 1));
                t.get(&ZobristHash(KEYS[j])).is_none()
            })?;
            if shared {
                class[i] = class[j];
                break;
            }
        }
    }
    Ok(class)
}

fn observed(t: &SearchTranspositionTable) -> ([Option<Entry>; 4], u8, usize, usize) {
    let mut o = [None; 4];
    for (i, k) in KEYS.iter().enumerate() {
        if let Some(d) = t.get(&ZobristHash(*k)) {
            let b = match d.bound {
                NodeBound::Exact => 0,
                NodeBound::Upper => 1,
                NodeBound::Lower => 2,
            };
            // the eval encodes what was stored: a mismatch with (key, depth, bound) means confusion
            let ki = if d.eval.0 == (i as i16) * 100 + i16::from(d.depth) * 10 + i16::from(b) { i } else { 99 };
            o[i] = Some((ki, d.depth, b, d.age));
        }
    }
    (o, t.generation, crate::tt_occ!(t), (t.occupancy() as usize))
}

struct Exec {
    t: SearchTranspositionTable,
    m: Model,
    classes: std::collections::HashMap<usize, [usize; 4]>,
}

impl Exec {
    fn new(size: usize, start_gen: u8, classes: &std::collections::HashMap<usize, [usize; 4]>) -> Result<Exec, String> {
        let mut t = catch(|| SearchTranspositionTable::new(size))?;
        t.generation = start_gen;
        Ok(Exec { t, m: Model { size, generation: start_gen, class: classes[&size], slots: [None; 4] }, classes: classes.clone() })
    }

    /// Apply one operation to the real table and to the model; Err = violation text.
    fn apply(&mut self, op: Op) -> Result<(), String> {
        self.apply_opt(op, true)
    }

    /// `probe` = compare every key with the model after the operation. Probing is itself a sequence of table
    /// operations (it may disturb whatever the table remembers between calls), so every history is also executed
    /// without intermediate probes and compared once at its end.
    fn apply_opt(&mut self, op: Op, probe: bool) -> Result<(), String> {
        match op {
            Op::Insert { key, depth, bound } => {
                let age = self.m.generation;
                let d = data(key, depth, bound, age);
                let c = self.m.class[key];
                let admit = match self.m.slots[c] {
                    None => true,
                    Some((ok, od, ob, oa)) => {
                        if oa != age {
                            true
                        } else if ob == 0 {
                            bound == 0 || depth > od
                        } else {
                            // the property leaves this case open: ask the implementation
                            data(ok, od, ob, oa).should_overwrite_with(&d)
                        }
                    }
                };
                catch(|| self.t.insert(&ZobristHash(KEYS[key]), d)).map_err(|e| format!("insert panicked: {e}"))?;
                if admit {
                    self.m.slots[c] = Some((key, depth, bound, age));
                }
            }
            Op::NewSearch => {
                catch(|| self.t.new_generation()).map_err(|e| format!("new_generation panicked at generation {}: {e}", self.m.generation))?;
                self.m.generation = self.m.generation.wrapping_add(1);
            }
            Op::Reset => {
                catch(|| self.t.reset()).map_err(|e| format!("reset panicked: {e}"))?;
                self.m.slots = [None; 4];
                self.m.generation = 0;
            }
            Op::Resize(s) => {
                catch(|| self.t.resize(s)).map_err(|e| format!("resize({s}) panicked: {e}"))?;
                if s != self.m.size {
                    self.m.slots = [None; 4];
                    self.m.generation = 0;
                    self.m.size = s;
                    self.m.class = self.classes[&s];
                } else {
                    // resize to the current size is a documented no-op; either behaviour is accepted
                    let (o, g, _, _) = observed(&self.t);
                    if o.iter().all(|x| x.is_none()) && crate::tt_empty!(self.t) {
                        self.m.slots = [None; 4];
                        self.m.generation = g;
                    }
                }
            }
        }
        if probe {
            self.compare()
        } else {
            Ok(())
        }
    }

    fn compare(&self) -> Result<(), String> {
        let (o, g, occ, _) = catch(|| observed(&self.t)).map_err(|e| format!("probe panicked: {e}"))?;
        for i in 0..4 {
            let want = match self.m.slots[self.m.class[i]] {
                Some(e) if e.0 == i => Some(e),
                _ => None,
            };
            if o[i] != want {
                return Err(format!("probe(k{i}) = {:?}, the policy says {:?} (entry = key index, depth, bound, age; 99 = data stored under another key)", o[i], want));
            }
        }
        if g != self.m.generation {
            return Err(format!("generation {} but the history implies {}", g, self.m.generation));
        }
        let mut used = HashSet::new();
        for i in 0..4 {
            if self.m.slots[self.m.class[i]].is_some() {
                used.insert(self.m.class[i]);
            }
        }
        if occ != usize::MAX && occ != used.len() {
            return Err(format!("occupied = {occ}, occupied slots = {}", used.len()));
        }
        Ok(())
    }

    fn canon(&self) -> (usize, u8, usize, [Option<Entry>; 4]) {
        let (o, g, occ, _) = observed(&self.t);
        (self.m.size, g, occ, o)
    }
}

fn alphabet(sizes: &[usize]) -> Vec<Op> {
    let mut a = vec![];
    for key in 0..4 {
        for depth in [1u8, 2] {
            for bound in 0..3u8 {
                a.push(Op::Insert { key, depth, bound });
            }
        }
    }
    a.push(Op::NewSearch);
    a.push(Op::Reset);
    for s in sizes {
        a.push(Op::Resize(*s));
    }
    a
}

fn run_history(size: usize, start_gen: u8, hist: &[Op], classes: &std::collections::HashMap<usize, [usize; 4]>) -> Result<Exec, (usize, String)> {
    crate::util::set_current_case(case_json(size, start_gen, hist).dump().replace('\n', " "), format!("table of {size} MB, generation {start_gen}, operations {}", hist.iter().map(|o| o.text()).collect::<Vec<_>>().join(" ")));
    let mut e = Exec::new(size, start_gen, classes).map_err(|m| (0, format!("new({size}) panicked: {m}")))?;
    e.compare().map_err(|m| (0, m))?;
    for (i, op) in hist.iter().enumerate() {
        e.apply(*op).map_err(|m| (i + 1, m))?;
    }
    // the same history without the intermediate probes
    if hist.len() >= 2 {
        let mut q = Exec::new(size, start_gen, classes).map_err(|m| (0, format!("new({size}) panicked: {m}")))?;
        for (i, op) in hist.iter().enumerate() {
            q.apply_opt(*op, false).map_err(|m| (i + 1, m))?;
        }
        q.compare().map_err(|m| (hist.len(), format!("[history executed without intermediate probes] {m}")))?;
        if q.canon() != e.canon() {
            return Err((hist.len(), format!("the table state after the history depends on whether it was probed in between: {:?} vs {:?}", q.canon(), e.canon())));
        }
    }
    Ok(e)
}

fn case_json(size: usize, start_gen: u8, hist: &[Op]) -> J {
    J::obj(vec![("kind", J::s("tt-ops")), ("size_mb", J::i(size as i64)), ("start_generation", J::i(start_gen)), ("ops", J::Arr(hist.iter().map(|o| J::s(o.text())).collect()))])
}

pub fn run(run: &Run, sizes: &[usize]) -> (u64, u64) {
    let depth = if run.quick() { 5 } else { 6 };
    let mut classes = std::collections::HashMap::new();
    for s in sizes {
        match classes_for(*s) {
            Ok(c) => {
                classes.insert(*s, c);
            }
            Err(e) => {
                run.violation("tt-panic", format!("tt-panic|size {s}|probe of slot classes"), case_json(*s, 0, &[Op::Insert { key: 0, depth: 1, bound: 1 }]), format!("table of the advertised size {s} MB panics on first use: {e}"));
                classes.insert(*s, [0, 0, 0, 0]);
            }
        }
    }
    let alpha = alphabet(sizes);
    let (mut states, mut transitions) = (0u64, 0u64);
    for &size in sizes {
        for start_gen in [0u8, 254, 255] {
            let mut seen: HashSet<(usize, u8, usize, [Option<Entry>; 4])> = HashSet::new();
            let mut frontier: Vec<Vec<Op>> = vec![vec![]];
            match run_history(size, start_gen, &[], &classes) {
                Ok(e) => {
                    seen.insert(e.canon());
                }
                Err((_, m)) => {
                    run.violation("tt-policy", format!("tt|size {size}|gen {start_gen}|(empty)"), case_json(size, start_gen, &[]), m);
                    continue;
                }
            }
            states += 1;
            for _level in 0..depth {
                let next: Mutex<Vec<(Vec<Op>, (usize, u8, usize, [Option<Entry>; 4]))>> = Mutex::new(vec![]);
                let tr = std::sync::atomic::AtomicU64::new(0);
                par_for(frontier.len(), |fi| {
                    let hist = &frontier[fi];
                    let mut out = vec![];
                    for op in &alpha {
                        let mut h = hist.clone();
                        h.push(*op);
                        tr.fetch_add(1, std::sync::atomic::Ordering::Relaxed);
                        match run_history(size, start_gen, &h, &classes) {
                            Ok(e) => out.push((h, e.canon())),
                            Err((at, m)) => {
                                let kind = if m.contains("panicked") { "tt-panic" } else { "tt-policy" };
                                run.violation(kind, format!("{kind}|size {size}|gen {start_gen}|{}", h[..at.min(h.len())].iter().map(|o| o.text()).collect::<Vec<_>>().join(" ")), case_json(size, start_gen, &h[..at.min(h.len())]), m);
                            }
                        }
                    }
                    next.lock().unwrap().extend(out);
                });
                transitions += tr.load(std::sync::atomic::Ordering::Relaxed);
                let mut nf = vec![];
                let mut cand = next.into_inner().unwrap();
                cand.sort_by(|a, b| a.0.iter().map(|o| o.text()).collect::<Vec<_>>().cmp(&b.0.iter().map(|o| o.text()).collect::<Vec<_>>()));
                for (h, c) in cand {
                    if seen.insert(c) {
                        nf.push(h);
                    }
                }
                states += nf.len() as u64;
                frontier = nf;
                if frontier.is_empty() {
                    break;
                }
            }
            for c in seen.iter().take(50) {
                run.distinct_outcome(format!("{c:?}"));
            }
        }
    }
    // every operation sequence up to length 3 WITHOUT merging states: two histories that lead to the same observable
    // table are both extended (an implementation may remember something the probes cannot see)
    {
        let mut seqs: Vec<Vec<Op>> = vec![];
        for a in &alpha {
            for b in &alpha {
                seqs.push(vec![*a, *b]);
                for c in &alpha {
                    seqs.push(vec![*a, *b, *c]);
                }
            }
        }
        let n_all = std::sync::atomic::AtomicU64::new(0);
        let combos: Vec<(usize, u8)> = sizes.iter().flat_map(|s| [0u8, 255].into_iter().map(move |g| (*s, g))).collect();
        par_for(seqs.len(), |i| {
            for (size, start_gen) in &combos {
                n_all.fetch_add(1, std::sync::atomic::Ordering::Relaxed);
                if let Err((at, m)) = run_history(*size, *start_gen, &seqs[i], &classes) {
                    let h = &seqs[i];
                    let kind = if m.contains("panicked") { "tt-panic" } else { "tt-policy" };
                    run.violation(kind, format!("{kind}|size {size}|gen {start_gen}|{}", h[..at.min(h.len())].iter().map(|o| o.text()).collect::<Vec<_>>().join(" ")), case_json(*size, *start_gen, &h[..at.min(h.len())]), m);
                }
            }
        });
        let n = n_all.load(std::sync::atomic::Ordering::Relaxed);
        run.family("E5-ALL-HISTORIES", &format!("sizes {sizes:?} MB x start generation {{0,255}} x every sequence of 2 or 3 operations over the same alphabet ({} sequences), no state merging; each executed with and without intermediate probes", seqs.len()), n, n * 3, true, "");
        states += n;
        transitions += n * 3;
    }
    run.family("E5-TT-OPS", &format!("sizes {sizes:?} MB x start generation {{0,254,255}}, alphabet of {} operations (insert 4 keys [3 colliding in one slot] x depth {{1,2}} x bound {{exact,upper,lower}}, new-search, reset, resize), all sequences to depth {depth}, de-duplicated on the canonical table state", alpha.len()), states, transitions, true, "every probe of every key compared with the reference policy after every operation");
    (states, transitions)
}

/// Fill indicator, independent of how keys are mapped to slots: pseudo-random 64-bit keys are inserted one by one
/// (same search, non-exact: the latest key always takes its slot); at checkpoints the number of occupied slots is
/// MEASURED as the number of inserted keys that are still retrievable, and `occupied` / `occupancy()` are compared
/// with it. The denominator is the implementation's own slot count; that a table of S MB really has room for
/// about S MB of entries is checked separately.
pub fn fill_indicator(run: &Run, sizes: &[usize]) -> (u64, u64) {
    let (mut states, mut tr) = (0u64, 0u64);
    for &size in sizes {
        let entry = std::mem::size_of::<crate::engine::transposition_table::TranspositionTableEntry<SearchTranspositionTableData>>();
        let n_by_size = size * 1024 * 1024 / entry;
        crate::util::set_current_case(J::obj(vec![("kind", J::s("tt-fill")), ("size_mb", J::i(size as i64))]).dump().replace('\n', " "), format!("fill-indicator pass on a table of {size} MB"));
        let r = catch(|| {
            let n = crate::engine::transposition_table::calculate_number_of_entries::<SearchTranspositionTableData>(size).max(1);
            let mut t = SearchTranspositionTable::new(size);
            let mut bad: Vec<String> = vec![];
            let total = 4 * n_by_size.max(n).max(4);
            // first half: consecutive integers (they reach every residue of any modulus or mask up to their count),
            // second half: pseudo-random 64-bit keys
            let keys: Vec<u64> = (0..total as u64).map(|i| if i < total as u64 / 2 { i } else { crate::util::mix(i ^ 0xC19) }).collect();
            let mut checkpoints: Vec<usize> = vec![1, 2, 3, 10, n / 1000, n / 1000 + 1, n / 500, n / 100, n / 20, n / 10, n / 4, n / 2, n - 1, n, n + 1, 3 * n / 2, total];
            for k in 1..=20 {
                checkpoints.push(k * total / 20);
            }
            checkpoints.retain(|c| *c >= 1 && *c <= total);
            checkpoints.sort();
            checkpoints.dedup();
            let mut checks = 0u64;
            let mut next = 0usize;
            for m in 1..=total {
                t.insert(&ZobristHash(keys[m - 1]), data(0, 1, 1, 0));
                if next < checkpoints.len() && checkpoints[next] == m {
                    next += 1;
                    checks += 1;
                    let occupied_slots = keys[..m].iter().filter(|k| t.get(&ZobristHash(**k)).is_some()).count();
                    if crate::tt_occ!(t) != usize::MAX && crate::tt_occ!(t) != occupied_slots {
                        bad.push(format!("size {size} MB after {m} inserts: occupied = {}, {} of the inserted keys are retrievable (= occupied slots)", crate::tt_occ!(t), occupied_slots));
                    }
                    let want = 1000 * occupied_slots / n;
                    let got = (t.occupancy() as usize);
                    if (got as i64 - want as i64).abs() > 1 {
                        bad.push(format!("size {size} MB, {occupied_slots} of {n} slots occupied: fill indicator {got}, fraction is {want} permille"));
                    }
                    if m == total && size >= 1 && occupied_slots * 10 < n_by_size * 4 {
                        bad.push(format!("size {size} MB: after {m} inserts of distinct random keys only {occupied_slots} entries are held; {entry} bytes per entry would allow {n_by_size}"));
                    }
                    if bad.len() > 3 {
                        break;
                    }
                }
            }
            // nothing but replacement from here: re-inserting held keys (deeper, exact) must not change the statistics
            let before = (crate::tt_occ!(t), (t.occupancy() as usize));
            let held: Vec<u64> = keys.iter().copied().filter(|k| t.get(&ZobristHash(*k)).is_some()).take(5000).collect();
            for k in &held {
                t.insert(&ZobristHash(*k), data(1, 2, 0, 0));
            }
            if (crate::tt_occ!(t), (t.occupancy() as usize)) != before {
                bad.push(format!("size {size} MB: re-inserting held keys changed the fill statistics from {before:?} to {:?}", (crate::tt_occ!(t), (t.occupancy() as usize))));
            }
            t.reset();
            if !crate::tt_empty!(t) || (t.occupancy() as usize) != 0 || keys.iter().take(1000).any(|k| t.get(&ZobristHash(*k)).is_some()) {
                bad.push(format!("size {size} MB: reset leaves occupied={} occupancy={}", crate::tt_occ!(t), (t.occupancy() as usize)));
            }
            (bad, checks, total as u64)
        });
        match r {
            Err(e) => run.violation("tt-panic", format!("tt-panic|fill|size {size}"), J::obj(vec![("kind", J::s("tt-fill")), ("size_mb", J::i(size as i64))]), format!("fill-indicator pass on a {size} MB table panicked: {e}")),
            Ok((bad, checks, ins)) => {
                states += checks;
                tr += ins;
                for b in bad {
                    run.violation("tt-fill-indicator", format!("tt-fill|size {size}|{}", &b[..b.len().min(60)]), J::obj(vec![("kind", J::s("tt-fill")), ("size_mb", J::i(size as i64))]), b);
                }
            }
        }
    }
    run.family("TT-FILL", &format!("sizes {sizes:?} MB: 4 x (size / entry size) keys (half consecutive integers, half pseudo-random) inserted one by one; at ~35 checkpoints (1, 2, 3, 10, the permille steps around N/1000, N/100 .. N, 3N/2, 2N) the number of occupied slots is measured through probes and compared with `occupied` and the fill indicator; capacity; re-insertion; reset"), states, tr, true, "independent of the key-to-slot mapping");
    (states, tr)
}

/// Large tables: the fill statistics where counters get big (more than 2^32 / 1000 occupied slots), with consecutive
/// keys only; occupied slots are measured through probes at a few checkpoints and by construction elsewhere
/// (distinct keys below the slot count never share a slot under any modulus / mask / multiply-shift mapping that
/// is a bijection on 0..N; where that does not hold the probe count decides).
pub fn fill_large(run: &Run, size: usize) -> (u64, u64) {
    crate::util::set_current_case(J::obj(vec![("kind", J::s("tt-fill-large")), ("size_mb", J::i(size as i64))]).dump().replace('\n', " "), format!("large-table fill pass on a table of {size} MB"));
    let r = catch(|| {
        let n = crate::engine::transposition_table::calculate_number_of_entries::<SearchTranspositionTableData>(size).max(1);
        let mut t = SearchTranspositionTable::new(size);
        let mut bad: Vec<String> = vec![];
        let total = (n / 10 * 7).max(1);
        let edge = (u32::MAX / 1000) as usize;
        let mut checkpoints: Vec<usize> = vec![1, n / 1000, n / 100, n / 10, n / 4, n / 2, edge - 1, edge, edge + 1, edge + 2, edge + edge / 2, 2 * edge, total];
        checkpoints.retain(|c| *c >= 1 && *c <= total);
        checkpoints.sort();
        checkpoints.dedup();
        let probe_at: Vec<usize> = vec![n / 100, edge + 1, total];
        let (mut checks, mut next) = (0u64, 0usize);
        for m in 1..=total {
            t.insert(&ZobristHash(m as u64 - 1), data(0, 1, 1, 0));
            if next < checkpoints.len() && checkpoints[next] == m {
                next += 1;
                checks += 1;
                let occ = if crate::tt_occ!(t) == usize::MAX { m } else { crate::tt_occ!(t) };
                if probe_at.contains(&m) {
                    let measured = (0..m as u64).filter(|k| t.get(&ZobristHash(*k)).is_some()).count();
                    if occ != measured {
                        bad.push(format!("size {size} MB after {m} inserts: occupied = {occ}, {measured} of the inserted keys are retrievable"));
                    }
                }
                let want = 1000 * occ as u128 / n as u128;
                let got = t.occupancy() as u128;
                if got.abs_diff(want) > 1 {
                    bad.push(format!("size {size} MB, {occ} of {n} slots occupied: fill indicator {got}, fraction is {want} permille"));
                }
                if bad.len() > 3 {
                    break;
                }
            }
        }
        (bad, checks, total as u64)
    });
    let (mut states, mut tr) = (0u64, 0u64);
    match r {
        Err(e) => run.violation("tt-panic", format!("tt-panic|fill-large|size {size}"), J::obj(vec![("kind", J::s("tt-fill-large")), ("size_mb", J::i(size as i64))]), format!("large-table fill pass on a {size} MB table panicked: {e}")),
        Ok((bad, checks, ins)) => {
            states += checks;
            tr += ins;
            for b in bad {
                run.violation("tt-fill-indicator", format!("tt-fill-large|size {size}|{}", &b[..b.len().min(60)]), J::obj(vec![("kind", J::s("tt-fill-large")), ("size_mb", J::i(size as i64))]), b);
            }
        }
    }
    run.family("TT-FILL-LARGE", &format!("{size} MB table, consecutive keys up to 70 % of the slots, fill statistics at 13 checkpoints including the counts around 2^32 / 1000 occupied slots"), states, tr, true, "");
    (states, tr)
}

/// Many searches: the generation counter over 3 x 256 new-search events with inserts in between.
pub fn many_generations(run: &Run, size: usize) -> (u64, u64) {
    let r = catch(|| {
        let mut t = SearchTranspositionTable::new(size);
        let mut bad = vec![];
        for i in 0..800u32 {
            t.new_generation();
            let age = t.generation;
            t.insert(&ZobristHash(KEYS[(i % 3) as usize]), data((i % 3) as usize, 1, 1, age));
            // entries from earlier searches always give way
            let got = t.get(&ZobristHash(KEYS[(i % 3) as usize])).map(|d| d.age);
            if got != Some(age) {
                bad.push(format!("after {} new-search events an insert of the current search was not admitted over an older entry (probe age {got:?}, current {age})", i + 1));
                break;
            }
        }
        bad
    });
    match r {
        Err(e) => run.violation("tt-panic", format!("tt-panic|generations|size {size}"), J::obj(vec![("kind", J::s("tt-generations")), ("size_mb", J::i(size as i64))]), format!("800 consecutive searches on one table: {e}")),
        Ok(bad) => {
            for b in bad {
                run.violation("tt-policy", format!("tt-generations|{b}"), J::obj(vec![("kind", J::s("tt-generations")), ("size_mb", J::i(size as i64))]), b);
            }
        }
    }
    run.family("TT-GENERATIONS", "800 new-search events on one table with an insert after each", 800, 800, true, "");
    (800, 800)
}

pub fn replay(run: &Run, case: &J) {
    let size = case.get("size_mb").and_then(|x| x.as_i64()).unwrap_or(1) as usize;
    match case.get("kind").and_then(|x| x.as_str()) {
        Some("tt-ops") => {
            let g = case.get("start_generation").and_then(|x| x.as_i64()).unwrap_or(0) as u8;
            let ops: Vec<Op> = case.get("ops").and_then(|x| x.as_arr()).map(|a| a.iter().filter_map(|o| o.as_str().and_then(Op::parse)).collect()).unwrap_or_default();
            let mut sizes = vec![size];
            for o in &ops {
                if let Op::Resize(s) = o {
                    sizes.push(*s);
                }
            }
            let mut classes = std::collections::HashMap::new();
            for s in sizes {
                classes.insert(s, classes_for(s).unwrap_or([0, 0, 0, 0]));
            }
            match run_history(size, g, &ops, &classes) {
                Ok(e) => println!("history runs clean; final state {:?}", e.canon()),
                Err((at, m)) => {
                    println!("fails at operation {at}: {m}");
                    run.violation("tt-policy", String::new(), J::Null, m);
                }
            }
        }
        Some("tt-fill") => {
            fill_indicator(run, &[size]);
        }
        Some("tt-fill-large") => {
            fill_large(run, size);
        }
        _ => {
            many_generations(run, size);
        }
    }
}
