//! E1 (position BFS over F-REACH) and E3 (family enumerators) drivers running the state and
//! transition monitors of `monitors.rs`. Used by C01, C02, C03, C06(a), C11(material), C15, C16, C18, C20.

#![allow(dead_code)]

use crate::chess::game::Game;
use crate::eng::{self, Ident};
use crate::families::{self, Man};
use crate::monitors::{self as mo, Counts, Ctx, KeyMap, Mon, Origin};
use crate::refchess::{Color, Kind, Pos};
use crate::report::Run;
use crate::util::{par_for, J};
use std::collections::HashSet;
use std::sync::Mutex;

struct Seen {
    shards: Vec<Mutex<HashSet<Ident>>>,
}

impl Seen {
    fn new() -> Seen {
        Seen { shards: (0..256).map(|_| Mutex::new(HashSet::new())).collect() }
    }
    fn insert(&self, id: Ident) -> bool {
        let h = (id.0[0] ^ id.0[1].rotate_left(17) ^ id.0[2].rotate_left(31) ^ id.0[3].rotate_left(47) ^ u64::from(id.1)).wrapping_mul(0x9e3779b97f4a7c15);
        self.shards[(h >> 56) as usize].lock().unwrap().insert(id)
    }
    fn len(&self) -> usize {
        self.shards.iter().map(|s| s.lock().unwrap().len()).sum()
    }
}

struct Node {
    g: Game,
    p: Pos,
    origin: Origin,
}

// The frontier is split into disjoint chunks and every node is read by exactly one worker, so the harness does
// not depend on `Game` being `Sync` (an implementation may keep interior-mutable caches in it).
unsafe impl Sync for Node {}

/// Level-synchronous BFS from one seed to `depth` plies; identity = placement, side, rights and the
/// engine's en-passant target. Returns (states, transitions).
pub fn bfs(ctx: &Ctx, name: &str, seed: &Pos, depth: usize, total: &Mutex<Counts>) -> (u64, u64) {
    let seen = Seen::new();
    let root_g = eng::to_game(seed);
    let root_origin = Origin::Built(seed.to_fen());
    seen.insert(eng::ident_of(seed, root_g.en_passant_target.map(|s| s.idx())));
    let mut frontier = vec![Node { g: root_g, p: seed.clone(), origin: root_origin }];
    let (mut states, mut transitions) = (0u64, 0u64);
    for level in 0..=depth {
        let next: Mutex<Vec<Node>> = Mutex::new(vec![]);
        let last = level == depth;
        let chunk = 64usize;
        let nchunks = frontier.len().div_ceil(chunk);
        let stats = Mutex::new((0u64, 0u64));
        par_for(nchunks, |ci| {
            let mut c = Counts::new();
            let mut local_next = vec![];
            let (mut st, mut tr) = (0u64, 0u64);
            for node in &frontier[ci * chunk..((ci + 1) * chunk).min(frontier.len())] {
                st += 1;
                let pairs = mo::check_state(ctx, &node.p, &node.g, &node.origin, &mut c);
                if last && !ctx.mon.needs_transitions() {
                    continue;
                }
                let before = mo::snapshot(&node.g);
                for (em, rm) in pairs {
                    tr += 1;
                    let Some((mut g2, p2)) = mo::check_transition(ctx, &node.p, &node.g, &node.origin, em, &rm, &before, &mut c) else { continue };
                    if last {
                        continue;
                    }
                    let id = eng::ident_of(&p2, g2.en_passant_target.map(|s| s.idx()));
                    if seen.insert(id) {
                        // keep only the last history entry (the counter-move stage and null-move rule look at it)
                        let n = g2.history.len();
                        if n > 1 {
                            g2.history.drain(..n - 1);
                        }
                        local_next.push(Node { g: g2, p: p2, origin: node.origin.child(&rm.uci()) });
                    }
                }
            }
            let mut t = total.lock().unwrap();
            for (k, v) in c {
                *t.entry(k).or_insert(0) += v;
            }
            drop(t);
            let mut s = stats.lock().unwrap();
            s.0 += st;
            s.1 += tr;
            drop(s);
            next.lock().unwrap().extend(local_next);
        });
        let s = stats.lock().unwrap();
        states += s.0;
        transitions += s.1;
        frontier = next.into_inner().unwrap();
        if frontier.is_empty() {
            break;
        }
    }
    let _ = name;
    (states, transitions)
}

/// Run the monitors on one enumerated position (E3): state monitors, and one make/take-back per move
/// if the property needs transitions.
pub fn visit_built(ctx: &Ctx, p: &Pos, c: &mut Counts) -> (u64, u64) {
    let origin = Origin::Built(p.to_fen_with_ep(if p.ep_adjacent() { p.ep } else { None }));
    // the position is legal (the enumerators guarantee it): a constructor that panics on it fails every property
    // quantified over legal positions
    let g = match crate::util::catch(|| eng::to_game(p)) {
        Ok(g) => g,
        Err(e) => {
            ctx.run.violation("game-constructor-panic", format!("game-constructor-panic|{}", origin.key()), J::obj(vec![("kind", J::s("position")), ("origin", origin.json()), ("check", J::s("game-constructor-panic"))]), format!("Game::from_state panics on the legal position {}: {e}", p.to_fen()));
            return (1, 0);
        }
    };
    let pairs = mo::check_state(ctx, p, &g, &origin, c);
    let mut tr = 0;
    if ctx.mon.needs_transitions() {
        let before = mo::snapshot(&g);
        for (em, rm) in pairs {
            tr += 1;
            mo::check_transition(ctx, p, &g, &origin, em, &rm, &before, c);
        }
    }
    (1, tr)
}

/// Generic sharded family runner: `shards` independent work items, each calling the enumerator.
pub fn run_family(ctx: &Ctx, name: &str, bound: &str, shards: usize, total: &Mutex<Counts>, enumerate: &(dyn Fn(usize, &mut dyn FnMut(&Pos)) + Sync)) -> (u64, u64) {
    let stats = Mutex::new((0u64, 0u64));
    par_for(shards, |i| {
        let mut c = Counts::new();
        let (mut st, mut tr) = (0u64, 0u64);
        enumerate(i, &mut |p: &Pos| {
            let (a, b) = visit_built(ctx, p, &mut c);
            st += a;
            tr += b;
        });
        let mut t = total.lock().unwrap();
        for (k, v) in c {
            *t.entry(k).or_insert(0) += v;
        }
        drop(t);
        let mut s = stats.lock().unwrap();
        s.0 += st;
        s.1 += tr;
    });
    let s = *stats.lock().unwrap();
    ctx.run.family(name, bound, s.0, s.1, true, "");
    s
}

fn crosscheck(ctx: &Ctx, on: bool) {
    ctx.fen_crosscheck.store(on, std::sync::atomic::Ordering::Relaxed);
}

pub struct SweepPlan {
    pub reach_depth_small: usize,
    pub reach_depth_big: usize,
    pub mat1: Vec<Vec<Man>>,
    pub mat2: Vec<Vec<Man>>,
    pub ep_extra: Vec<Option<Man>>,
    pub ep_restrict_king: bool,
    pub ep_restrict_bk: bool,
    pub castle_enemy: Vec<Vec<Kind>>,
    pub castle_blockers: Vec<Option<Kind>>,
    pub disamb: Vec<(Kind, usize, Option<Kind>)>,
    pub promo: bool,
    pub heavy: Option<(usize, usize, usize)>,
    pub rights: bool,
    pub see_family: Option<usize>,
    /// F-CORNER: (white king, black king, further men)
    pub corner: Vec<(u8, u8, Vec<Man>)>,
    pub skip_reach: bool,
    pub absurd: bool,
    pub ep_push: bool,
}

pub fn men1() -> Vec<Vec<Man>> {
    families::ALL_MEN.iter().map(|m| vec![*m]).collect()
}

pub fn men2_all() -> Vec<Vec<Man>> {
    let mut v = vec![];
    for (i, a) in families::ALL_MEN.iter().enumerate() {
        for b in families::ALL_MEN.iter().skip(i) {
            v.push(vec![*a, *b]);
        }
    }
    v
}

/// All 16 castling-right subsets x both sides on a few rook/king home placements with extra men.
pub fn enumerate_rights(cb: &mut dyn FnMut(&Pos)) {
    for base in ["r3k2r/8/8/8/8/8/8/R3K2R", "r3k2r/pppppppp/8/8/8/8/PPPPPPPP/R3K2R", "r3k2r/p6p/8/3Pp3/3pP3/8/P6P/R3K2R", "r2qk2r/8/8/8/8/8/8/R2QK2R"] {
        for mask in 0..16 {
            for side in ["w", "b"] {
                let mut rights = String::new();
                for (i, ch) in ['K', 'Q', 'k', 'q'].iter().enumerate() {
                    if mask & (1 << i) != 0 {
                        rights.push(*ch);
                    }
                }
                if rights.is_empty() {
                    rights.push('-');
                }
                let p = Pos::from_fen(&format!("{base} {side} {rights} - 0 1")).unwrap();
                if p.is_legal_position() {
                    cb(&p);
                }
            }
        }
    }
}

/// Run the whole plan with the monitors of `ctx`. Returns total (states, transitions).
pub fn run_plan(ctx: &Ctx, plan: &SweepPlan) -> (u64, u64) {
    let total: Mutex<Counts> = Mutex::new(Counts::new());
    let (mut states, mut transitions) = (0u64, 0u64);
    let mut add = |x: (u64, u64)| {
        states += x.0;
        transitions += x.1;
    };
    crosscheck(ctx, true);
    // F-REACH
    let seeds = if plan.skip_reach { vec![] } else { families::seeds() };
    let (mut rs, mut rt) = (0u64, 0u64);
    for s in &seeds {
        let p = Pos::from_fen(s.fen).unwrap();
        if !p.is_legal_position() {
            ctx.run.machinery_error(format!("seed {} is not a legal position", s.name));
            continue;
        }
        let d = if s.big { plan.reach_depth_big } else { plan.reach_depth_small };
        let (a, b) = bfs(ctx, s.name, &p, d, &total);
        rs += a;
        rt += b;
    }
    if !plan.skip_reach {
        for s in families::many_move_seeds() {
            let p = Pos::from_fen(s.fen).unwrap();
            if !p.is_legal_position() || p.legal_moves().len() < 130 {
                ctx.run.machinery_error(format!("seed {} is not a legal position with many moves ({} moves)", s.name, p.legal_moves().len()));
                continue;
            }
            let (a, b) = bfs(ctx, s.name, &p, 1, &total);
            rs += a;
            rt += b;
        }
    }
    if !plan.skip_reach {
        ctx.run.family("F-REACH", &format!("{} seeds, depth {} (large middlegame seeds: {}; 6 seeds with 133-218 legal moves: 1)", seeds.len(), plan.reach_depth_small, plan.reach_depth_big), rs, rt, true, "BFS, identity = placement+side+rights+ep");
        add((rs, rt));
    }
    if plan.rights {
        add(run_family(ctx, "F-RIGHTS", "4 home placements x 16 right subsets x 2 sides", 1, &total, &|_, cb| enumerate_rights(cb)));
    }
    crosscheck(ctx, false); // the two large families below are visited through the constructor only
    if !plan.mat1.is_empty() {
        let sigs = plan.mat1.clone();
        add(run_family(ctx, "F-MAT(kings+1)", &format!("{} of 10 signatures, all squares, both sides, all consistent rights/ep", sigs.len()), sigs.len() * 64, &total, &|i, cb| {
            families::enumerate_material((i % 64) as u8, &sigs[i / 64], cb)
        }));
    }
    if !plan.mat2.is_empty() {
        let sigs = plan.mat2.clone();
        add(run_family(ctx, "F-MAT(kings+2)", &format!("{} signatures, all squares", sigs.len()), sigs.len() * 64, &total, &|i, cb| {
            families::enumerate_material((i % 64) as u8, &sigs[i / 64], cb)
        }));
    }
    if !plan.ep_extra.is_empty() {
        let extras = plan.ep_extra.clone();
        let restrict = plan.ep_restrict_king;
        let restrict_bk = plan.ep_restrict_bk;
        add(run_family(
            ctx,
            "F-EP",
            &format!("pushed pawn on each file, 1-2 capturers, both kings, {} extra-man options, king {}{}; both colours", extras.len(), if restrict { "restricted to lines through the pawns/target" } else { "anywhere" }, if restrict_bk { " (the other king and the further man too)" } else { "" }),
            extras.len() * 8,
            &total,
            &|i, cb| families::enumerate_ep((i % 8) as i32, extras[i / 8], restrict, restrict_bk, cb),
        ));
    }
    crosscheck(ctx, true);
    if !plan.castle_enemy.is_empty() {
        let mut items: Vec<(u8, Vec<Kind>, Option<Kind>)> = vec![];
        for rooks in [1u8, 2, 3] {
            for e in &plan.castle_enemy {
                for b in &plan.castle_blockers {
                    items.push((rooks, e.clone(), *b));
                }
            }
        }
        add(run_family(ctx, "F-CASTLE", &format!("{} (rooks, enemy men, blocker) combinations, enemy king and men on all squares; both colours", items.len()), items.len(), &total, &|i, cb| {
            families::enumerate_castle(items[i].0, &items[i].1, items[i].2, cb)
        }));
    }
    if !plan.disamb.is_empty() {
        let items = plan.disamb.clone();
        add(run_family(ctx, "F-DISAMB", &format!("{} (kind, count, capture target) families, like pieces on all square sets", items.len()), items.len(), &total, &|i, cb| {
            families::enumerate_disamb(items[i].0, items[i].1, items[i].2, cb)
        }));
    }
    if plan.promo {
        add(run_family(ctx, "F-PROMO", "1-2 pawns on the 7th, 0-2 enemy men on the 8th, 12 king pairs; both colours", 1, &total, &|_, cb| families::enumerate_promo(cb)));
    }
    if let Some((q, r, bn)) = plan.heavy {
        add(run_family(ctx, "F-HEAVY", &format!("up to {q} queens, {r} rooks, {bn} bishops, {bn} knights a side, 3 filling orders, both sides to move"), 1, &total, &|_, cb| {
            families::enumerate_heavy(q, r, bn, cb)
        }));
    }
    if plan.ep_push {
        add(run_family(ctx, "F-EP-PUSH", "the position before the double step of every en-passant constellation (pushed pawn on each file, 1-2 capturers, no further man): the double step and every other move are made by the engine", 8, &total, &|i, cb| families::enumerate_ep_push(i as i32, None, cb)));
    }
    if plan.absurd {
        add(run_family(ctx, "F-ABSURD", "20..56 queens or rooks of one colour against a shielded bare king, the poor side to move, both colours", 1, &total, &|_, cb| families::enumerate_absurd(cb)));
    }
    if !plan.corner.is_empty() {
        let items = plan.corner.clone();
        let name = |m: &Man| format!("{}{}", if m.0 == Color::W { "w" } else { "b" }, format!("{:?}", m.1));
        let desc: Vec<String> = items.iter().map(|(wk, bk, men)| format!("K{}/k{}+{}", crate::refchess::sq_name(*wk), crate::refchess::sq_name(*bk), men.iter().map(name).collect::<Vec<_>>().join(""))).collect();
        add(run_family(ctx, "F-CORNER", &format!("both kings fixed, {} further men on all squares, both sides to move, plus colour-mirrored twins: {}", items[0].2.len(), desc.join(" ")), items.len() * 64, &total, &|i, cb| {
            let (wk, bk, men) = &items[i / 64];
            families::enumerate_corner(*wk, *bk, men, (i % 64) as u8, cb)
        }));
    }
    if let Some(n) = plan.see_family {
        add(crate::seefam::run(ctx, n, &total));
    }
    ctx.run.merge_counts(&total.lock().unwrap());
    (states, transitions)
}

pub fn sample_states(run: &Run) {
    for s in families::seeds().iter().take(3) {
        run.sample(J::obj(vec![("family", J::s("F-REACH seed")), ("name", J::s(s.name)), ("fen", J::s(s.fen))]));
    }
    let mut n = 0;
    families::enumerate_ep(4, Some((Color::B, Kind::B)), true, false, &mut |p: &Pos| {
        n += 1;
        if n % 50_000 == 1 {
            run.sample(J::obj(vec![("family", J::s("F-EP")), ("fen", J::s(p.to_fen()))]));
        }
    });
}
