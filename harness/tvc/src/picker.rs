//! C10: the staged move picker under every configuration of the hash-move / killer / counter-move /
//! history tables with at most D simultaneous deviations from the default.

use crate::chess::game::Game;
use crate::chess::moves::Move;
use crate::engine::options::EngineOptions;
use crate::engine::search::move_picker::MovePicker;
use crate::engine::search::time_control::TimeStrategy;
use crate::engine::search::{PersistentState, SearchContext, SearchRestrictions, TimeControl};
use crate::eng;
use crate::monitors::{bump, Counts, Ctx, Origin};
use crate::refchess::{Kind, Pos, RMove};
use crate::util::{catch, J};
use std::cell::RefCell;

thread_local! {
    static PS: RefCell<Option<PersistentState>> = const { RefCell::new(None) };
}

#[derive(Clone, Debug, Default)]
pub struct Config {
    pub hash: Option<Move>,
    pub killers: Vec<Move>, // pushed in this order through try_push
    pub counter: Option<Move>,
    pub history: u8, // 0 zero, 1 ascending, 2 descending
    pub ply: u8,
    pub loud: bool,
}

impl Config {
    pub fn text(&self) -> String {
        format!(
            "hash={} killers_pushed=[{}] counter={} history={} ply={} loud={}",
            self.hash.map(|m| format!("{m:?}")).unwrap_or("-".into()),
            self.killers.iter().map(|m| format!("{m:?}")).collect::<Vec<_>>().join(","),
            self.counter.map(|m| format!("{m:?}")).unwrap_or("-".into()),
            self.history,
            self.ply,
            self.loud
        )
    }
    pub fn json(&self) -> J {
        let mv = |m: &Move| J::s(format!("{m:?}{}", if m.is_capture() { "x" } else { "" }));
        J::obj(vec![
            ("hash", self.hash.as_ref().map(mv).unwrap_or(J::Null)),
            ("killers_pushed", J::Arr(self.killers.iter().map(mv).collect())),
            ("counter", self.counter.as_ref().map(mv).unwrap_or(J::Null)),
            ("history", J::i(self.history)),
            ("ply", J::i(self.ply)),
            ("loud", J::Bool(self.loud)),
        ])
    }
}

/// Run one stream; returns the moves yielded or the panic message.
pub fn stream(g: &Game, cfg: &Config, quiets_for_history: &[Move]) -> Result<Vec<Move>, String> {
    PS.with(|ps| {
        let mut ps = ps.borrow_mut();
        if ps.is_none() {
            *ps = Some(PersistentState::new(1));
        }
        let ps = ps.as_mut().unwrap();
        ps.history_table.reset();
        match cfg.history {
            1 => {
                for (i, m) in quiets_for_history.iter().enumerate() {
                    ps.history_table.add_bonus_for(g.player, *m, (i % 200) as u8 + 1);
                }
            }
            2 => {
                for (i, m) in quiets_for_history.iter().enumerate() {
                    ps.history_table.add_bonus_for(g.player, *m, (200 - (i % 200)) as u8);
                }
            }
            _ => {}
        }
        let options = EngineOptions::default();
        let (mut ts, _c) = TimeStrategy::new(g, &TimeControl::Infinite, &options);
        let restrictions = SearchRestrictions::default();
        let mut ctx = SearchContext::new(ps, &mut ts, &options, &restrictions);
        for k in &cfg.killers {
            ctx.killer_moves.try_push(cfg.ply, *k);
        }
        if let (Some(cm), Some(prev)) = (cfg.counter, g.history.last().and_then(|h| h.mv)) {
            ctx.countermove_table.set(g.player, prev, cm);
        }
        let mut picker = if cfg.loud { MovePicker::new_loud() } else { MovePicker::new(cfg.hash) };
        catch(|| {
            let mut out = vec![];
            while let Some(m) = picker.next(g, &ctx, cfg.ply) {
                out.push(m);
                if out.len() > 600 {
                    panic!("picker yields more than 600 moves (does not terminate)");
                }
            }
            out
        })
    })
}

fn judge(ctx: &Ctx, p: &Pos, origin: &Origin, cfg: &Config, res: Result<Vec<Move>, String>, legal_sorted: &[RMove], c: &mut Counts) {
    bump(c, "picker_streams");
    let vio = |kind: &str, detail: String| {
        let key = format!("{kind}|{}|{}", origin.key(), cfg.text());
        ctx.run.violation(kind, key, J::obj(vec![("kind", J::s("picker")), ("origin", origin.json()), ("config", cfg.json())]), detail);
    };
    let yielded = match res {
        Ok(v) => v,
        Err(e) => {
            vio("picker-panic", format!("{} [{}]: {e}", p.to_fen(), cfg.text()));
            return;
        }
    };
    ctx.run.distinct_outcome_sig((yielded.len() as u64) << 1 | u64::from(cfg.loud), || format!("stream of {} moves (captures-only: {})", yielded.len(), cfg.loud));
    let mut got: Vec<RMove> = yielded.iter().map(|m| eng::move_from_eng(*m)).collect();
    got.sort();
    if cfg.loud {
        let mut dup = false;
        for w in got.windows(2) {
            if w[0] == w[1] {
                dup = true;
            }
        }
        let not_legal: Vec<&RMove> = got.iter().filter(|m| !legal_sorted.contains(m)).collect();
        let missing: Vec<&RMove> = legal_sorted.iter().filter(|m| (m.capture || m.promo == Some(Kind::Q)) && !got.contains(m)).collect();
        if dup || !not_legal.is_empty() || !missing.is_empty() {
            vio("picker-loud", format!("{}: captures-only stream duplicates={dup} not-legal={:?} missing captures/queen promotions={:?}", p.to_fen(), not_legal.iter().map(|m| m.uci()).collect::<Vec<_>>(), missing.iter().map(|m| m.uci()).collect::<Vec<_>>()));
        }
        return;
    }
    if got != legal_sorted {
        let missing: Vec<String> = legal_sorted.iter().filter(|m| !got.contains(m)).map(|m| m.uci()).collect();
        let extra: Vec<String> = got.iter().filter(|m| !legal_sorted.contains(m)).map(|m| m.uci()).collect();
        let mut dups = vec![];
        for w in got.windows(2) {
            if w[0] == w[1] {
                dups.push(w[0].uci());
            }
        }
        vio("picker-stream", format!("{} [{}]: stream has {} moves, legal {}; missing {:?} not-legal {:?} twice {:?}", p.to_fen(), cfg.text(), got.len(), legal_sorted.len(), missing, extra, dups));
    }
    if cfg.hash.is_some() && !yielded.is_empty() && Some(yielded[0]) == cfg.hash {
        bump(c, "picker_hash_move_first");
    }
}

/// All configurations with at most `d` deviations for one position.
pub fn check_position(ctx: &Ctx, p: &Pos, g: &Game, origin: &Origin, d: usize, c: &mut Counts) {
    let mut legal = p.legal_moves();
    legal.sort();
    if legal.is_empty() {
        return;
    }
    bump(c, "picker_positions");
    let eng_moves: Vec<Move> = match catch(|| g.moves()) {
        Ok(l) => l.iter().copied().collect(),
        Err(_) => return,
    };
    let quiets: Vec<Move> = eng_moves.iter().copied().filter(|m| !m.is_capture() && m.promotion().is_none()).collect();
    let captures: Vec<Move> = eng_moves.iter().copied().filter(|m| m.is_capture()).collect();
    let promos: Vec<Move> = eng_moves.iter().copied().filter(|m| m.promotion().is_some() && !m.is_capture()).collect();
    // remembered moves that are not legal here: pseudo-legal but illegal quiets (pins, king into check),
    // quiet moves of the other side, a move from an empty square
    let mut illegal: Vec<Move> = vec![];
    for m in p.pseudo_moves() {
        if !m.capture && !m.castle && m.promo.is_none() && !legal.contains(&m) && illegal.len() < 2 {
            illegal.push(eng::move_to_eng(&m));
        }
    }
    for m in p.apply_null().legal_moves() {
        if !m.capture && !m.castle && m.promo.is_none() && illegal.len() < 4 {
            illegal.push(eng::move_to_eng(&m));
            break;
        }
    }
    if let Some(e) = (0..64u8).find(|s| p.board[*s as usize].is_none()) {
        illegal.push(Move::quiet(crate::eng::sq_to_eng(e), crate::eng::sq_to_eng((e + 9) % 64)));
    }
    let has_history = g.history.last().and_then(|h| h.mv).is_some();
    if has_history {
        bump(c, "picker_positions_with_previous_move");
    }
    if !captures.is_empty() && !quiets.is_empty() {
        bump(c, "picker_positions_with_captures_and_quiets");
    }
    // candidate remembered moves
    let mut remembered: Vec<Move> = vec![];
    remembered.extend(quiets.iter().take(12));
    remembered.extend(captures.iter().take(3));
    remembered.extend(promos.iter().take(2));
    remembered.extend(illegal.iter());
    let hashes: Vec<Move> = eng_moves.clone();

    let base = Config::default();
    let run_cfg = |cfg: &Config, c: &mut Counts| {
        let r = stream(g, cfg, &quiets);
        judge(ctx, p, origin, cfg, r, &legal, c);
    };
    // 0 deviations
    run_cfg(&base, c);
    run_cfg(&Config { loud: true, ..base.clone() }, c);
    if d == 0 {
        return;
    }
    // deviation kinds: H(hash), K1 (one killer), K2 (two killers = 2 deviations), C (counter), Y (history), P (ply)
    // one deviation
    let mut singles: Vec<Config> = vec![];
    for h in &hashes {
        singles.push(Config { hash: Some(*h), ..base.clone() });
    }
    for k in &remembered {
        singles.push(Config { killers: vec![*k], ..base.clone() });
    }
    if has_history {
        for k in &remembered {
            singles.push(Config { counter: Some(*k), ..base.clone() });
        }
    }
    for y in [1u8, 2] {
        singles.push(Config { history: y, ..base.clone() });
    }
    for ply in [1u8, 254] {
        singles.push(Config { ply, ..base.clone() });
        singles.push(Config { ply, loud: true, ..base.clone() });
    }
    for cfg in &singles {
        run_cfg(cfg, c);
    }
    if d == 1 {
        return;
    }
    // two deviations: all pairs of different kinds + two killers
    for h in &hashes {
        for k in &remembered {
            run_cfg(&Config { hash: Some(*h), killers: vec![*k], ..base.clone() }, c);
            if has_history {
                run_cfg(&Config { hash: Some(*h), counter: Some(*k), ..base.clone() }, c);
            }
        }
        for y in [1u8, 2] {
            run_cfg(&Config { hash: Some(*h), history: y, ..base.clone() }, c);
        }
        run_cfg(&Config { hash: Some(*h), ply: 254, ..base.clone() }, c);
    }
    for a in &remembered {
        for b in &remembered {
            run_cfg(&Config { killers: vec![*a, *b], ..base.clone() }, c);
            if has_history {
                run_cfg(&Config { killers: vec![*a], counter: Some(*b), ..base.clone() }, c);
            }
        }
        for y in [1u8, 2] {
            run_cfg(&Config { killers: vec![*a], history: y, ..base.clone() }, c);
            if has_history {
                run_cfg(&Config { counter: Some(*a), history: y, ..base.clone() }, c);
            }
        }
        run_cfg(&Config { killers: vec![*a], ply: 254, ..base.clone() }, c);
    }
    if d == 2 {
        return;
    }
    // three deviations: hash x killer x counter, hash x two killers, two killers x counter (smaller candidate sets)
    let rem3: Vec<Move> = remembered.iter().copied().take(6).chain(captures.iter().copied().take(1)).chain(illegal.iter().copied().take(1)).collect();
    for h in &hashes {
        for a in &rem3 {
            for b in &rem3 {
                run_cfg(&Config { hash: Some(*h), killers: vec![*a, *b], ..base.clone() }, c);
                if has_history {
                    run_cfg(&Config { hash: Some(*h), killers: vec![*a], counter: Some(*b), ..base.clone() }, c);
                }
            }
        }
    }
    if has_history {
        for a in &rem3 {
            for b in &rem3 {
                for cm in &rem3 {
                    run_cfg(&Config { killers: vec![*a, *b], counter: Some(*cm), ..base.clone() }, c);
                }
            }
        }
    }
    if d == 3 {
        return;
    }
    // four deviations: hash x two killers x counter
    if has_history {
        for h in &hashes {
            for a in &rem3 {
                for b in &rem3 {
                    for cm in &rem3 {
                        run_cfg(&Config { hash: Some(*h), killers: vec![*a, *b], counter: Some(*cm), ..base.clone() }, c);
                    }
                }
            }
        }
    }
}

pub fn replay(ctx: &Ctx, case: &J) -> Result<(), String> {
    let origin = Origin::from_json(case.get("origin").ok_or("origin")?)?;
    let (g, p) = origin.rebuild()?;
    let cfgj = case.get("config").ok_or("config")?;
    let find = |s: &str, pool: &[Move]| -> Option<Move> {
        let t = s.trim_end_matches('x');
        pool.iter().copied().find(|m| format!("{m:?}") == t && m.is_capture() == s.ends_with('x'))
    };
    // pool: legal moves here, legal moves of the other side, pseudo moves, plus the synthetic empty-square move
    let mut pool: Vec<Move> = g.moves().iter().copied().collect();
    pool.extend(p.pseudo_moves().iter().map(eng::move_to_eng));
    pool.extend(p.apply_null().legal_moves().iter().map(eng::move_to_eng));
    if let Some(e) = (0..64u8).find(|s| p.board[*s as usize].is_none()) {
        pool.push(Move::quiet(crate::eng::sq_to_eng(e), crate::eng::sq_to_eng((e + 9) % 64)));
    }
    let getm = |k: &str| cfgj.get(k).and_then(|x| x.as_str()).and_then(|s| find(s, &pool));
    let cfg = Config {
        hash: getm("hash"),
        killers: cfgj.get("killers_pushed").and_then(|x| x.as_arr()).map(|a| a.iter().filter_map(|x| x.as_str().and_then(|s| find(s, &pool))).collect()).unwrap_or_default(),
        counter: getm("counter"),
        history: cfgj.get("history").and_then(|x| x.as_i64()).unwrap_or(0) as u8,
        ply: cfgj.get("ply").and_then(|x| x.as_i64()).unwrap_or(0) as u8,
        loud: matches!(cfgj.get("loud"), Some(J::Bool(true))),
    };
    println!("position {} config {}", g.to_fen(), cfg.text());
    let quiets: Vec<Move> = g.moves().iter().copied().filter(|m| !m.is_capture() && m.promotion().is_none()).collect();
    let mut legal = p.legal_moves();
    legal.sort();
    let r = stream(&g, &cfg, &quiets);
    if let Ok(v) = &r {
        println!("stream: {}", v.iter().map(|m| format!("{m:?}")).collect::<Vec<_>>().join(" "));
    }
    let mut c = Counts::new();
    judge(ctx, &p, &origin, &cfg, r, &legal, &mut c);
    Ok(())
}
