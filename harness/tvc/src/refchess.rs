//! Reference model of the rules of chess ("refchess"): a boring 64-square mailbox, coordinates as
//! (file, rank) pairs, no bitboards, no tables and no code shared with the engine. It is the oracle
//! for C01, C02, C06, C08, C10, C11, C17, C18, C20. Validated against published perft numbers in
//! `self_test` (run by setup and at the start of every check).

#![allow(dead_code)]

#[derive(Clone, Copy, PartialEq, Eq, Hash, Debug, PartialOrd, Ord)]
pub enum Kind {
    P,
    N,
    B,
    R,
    Q,
    K,
}

#[derive(Clone, Copy, PartialEq, Eq, Hash, Debug, PartialOrd, Ord)]
pub enum Color {
    W,
    B,
}

impl Color {
    pub fn other(self) -> Color {
        match self {
            Color::W => Color::B,
            Color::B => Color::W,
        }
    }
}

/// file + 8 * rank, a1 = 0, h8 = 63
pub type Sq = u8;

pub fn sq(f: i32, r: i32) -> Sq {
    debug_assert!((0..8).contains(&f) && (0..8).contains(&r));
    (f + 8 * r) as Sq
}
pub fn file_of(s: Sq) -> i32 {
    (s % 8) as i32
}
pub fn rank_of(s: Sq) -> i32 {
    (s / 8) as i32
}
pub fn on_board(f: i32, r: i32) -> bool {
    (0..8).contains(&f) && (0..8).contains(&r)
}
pub fn sq_name(s: Sq) -> String {
    format!("{}{}", (b'a' + (s % 8)) as char, (b'1' + (s / 8)) as char)
}
pub fn parse_sq(s: &str) -> Option<Sq> {
    let b = s.as_bytes();
    if b.len() != 2 || !(b'a'..=b'h').contains(&b[0]) || !(b'1'..=b'8').contains(&b[1]) {
        return None;
    }
    Some((b[0] - b'a') + 8 * (b[1] - b'1'))
}

pub const WK: usize = 0;
pub const WQ: usize = 1;
pub const BK: usize = 2;
pub const BQ: usize = 3;

#[derive(Clone, PartialEq, Eq, Hash, Debug)]
pub struct Pos {
    pub board: [Option<(Color, Kind)>; 64],
    pub side: Color,
    /// WK, WQ, BK, BQ
    pub castle: [bool; 4],
    /// Square passed over by the pawn that just made a double step (set after EVERY double step;
    /// whether a capture is possible is a separate question, see `ep_capturable` / `ep_adjacent`).
    pub ep: Option<Sq>,
    pub halfmove: u32,
    pub fullmove: u32,
}

#[derive(Clone, Copy, PartialEq, Eq, Hash, Debug, PartialOrd, Ord)]
pub struct RMove {
    pub from: Sq,
    pub to: Sq,
    pub promo: Option<Kind>,
    /// true for ordinary captures and for en passant
    pub capture: bool,
    pub ep: bool,
    pub castle: bool,
}

impl RMove {
    pub fn uci(&self) -> String {
        let p = match self.promo {
            Some(Kind::N) => "n",
            Some(Kind::B) => "b",
            Some(Kind::R) => "r",
            Some(Kind::Q) => "q",
            _ => "",
        };
        format!("{}{}{}", sq_name(self.from), sq_name(self.to), p)
    }
}

const KNIGHT_D: [(i32, i32); 8] = [(1, 2), (2, 1), (2, -1), (1, -2), (-1, -2), (-2, -1), (-2, 1), (-1, 2)];
const KING_D: [(i32, i32); 8] = [(1, 0), (1, 1), (0, 1), (-1, 1), (-1, 0), (-1, -1), (0, -1), (1, -1)];
const ROOK_D: [(i32, i32); 4] = [(1, 0), (0, 1), (-1, 0), (0, -1)];
const BISHOP_D: [(i32, i32); 4] = [(1, 1), (-1, 1), (-1, -1), (1, -1)];

impl Pos {
    pub fn empty() -> Pos {
        Pos { board: [None; 64], side: Color::W, castle: [false; 4], ep: None, halfmove: 0, fullmove: 1 }
    }

    pub fn at(&self, f: i32, r: i32) -> Option<(Color, Kind)> {
        if on_board(f, r) {
            self.board[sq(f, r) as usize]
        } else {
            None
        }
    }

    pub fn king_sq(&self, c: Color) -> Option<Sq> {
        (0..64u8).find(|&s| self.board[s as usize] == Some((c, Kind::K)))
    }

    /// Squares holding a piece of colour `by` that attacks `target` (pseudo-attack, pins ignored),
    /// on the board as it stands.
    pub fn attackers(&self, target: Sq, by: Color) -> Vec<Sq> {
        let (tf, tr) = (file_of(target), rank_of(target));
        let mut out = vec![];
        for (df, dr) in KNIGHT_D {
            if self.at(tf + df, tr + dr) == Some((by, Kind::N)) {
                out.push(sq(tf + df, tr + dr));
            }
        }
        for (df, dr) in KING_D {
            if self.at(tf + df, tr + dr) == Some((by, Kind::K)) {
                out.push(sq(tf + df, tr + dr));
            }
        }
        // a pawn of colour `by` attacks diagonally forward: a white pawn on (f±1, r-1) attacks (f, r)
        let pr = if by == Color::W { tr - 1 } else { tr + 1 };
        for df in [-1, 1] {
            if self.at(tf + df, pr) == Some((by, Kind::P)) {
                out.push(sq(tf + df, pr));
            }
        }
        for (dirs, a, b) in [(ROOK_D, Kind::R, Kind::Q), (BISHOP_D, Kind::B, Kind::Q)] {
            for (df, dr) in dirs {
                let (mut f, mut r) = (tf + df, tr + dr);
                while on_board(f, r) {
                    if let Some((c, k)) = self.at(f, r) {
                        if c == by && (k == a || k == b) {
                            out.push(sq(f, r));
                        }
                        break;
                    }
                    f += df;
                    r += dr;
                }
            }
        }
        out
    }

    pub fn attacked(&self, target: Sq, by: Color) -> bool {
        !self.attackers(target, by).is_empty()
    }

    pub fn in_check(&self, c: Color) -> bool {
        match self.king_sq(c) {
            Some(k) => self.attacked(k, c.other()),
            None => false,
        }
    }

    /// Number of enemy pieces giving check to the side to move.
    pub fn checkers(&self) -> usize {
        match self.king_sq(self.side) {
            Some(k) => self.attackers(k, self.side.other()).len(),
            None => 0,
        }
    }

    fn push_pawn_moves(&self, out: &mut Vec<RMove>, from: Sq, to: Sq, capture: bool, ep: bool) {
        let last = if self.side == Color::W { 7 } else { 0 };
        if rank_of(to) == last {
            for k in [Kind::Q, Kind::R, Kind::B, Kind::N] {
                out.push(RMove { from, to, promo: Some(k), capture, ep: false, castle: false });
            }
        } else {
            out.push(RMove { from, to, promo: None, capture, ep, castle: false });
        }
    }

    pub fn pseudo_moves(&self) -> Vec<RMove> {
        let us = self.side;
        let them = us.other();
        let mut out = vec![];
        for s in 0..64u8 {
            let Some((c, k)) = self.board[s as usize] else { continue };
            if c != us {
                continue;
            }
            let (f, r) = (file_of(s), rank_of(s));
            match k {
                Kind::P => {
                    let dir = if us == Color::W { 1 } else { -1 };
                    let home = if us == Color::W { 1 } else { 6 };
                    if on_board(f, r + dir) && self.at(f, r + dir).is_none() {
                        self.push_pawn_moves(&mut out, s, sq(f, r + dir), false, false);
                        if r == home && self.at(f, r + 2 * dir).is_none() {
                            out.push(RMove { from: s, to: sq(f, r + 2 * dir), promo: None, capture: false, ep: false, castle: false });
                        }
                    }
                    for df in [-1, 1] {
                        if !on_board(f + df, r + dir) {
                            continue;
                        }
                        let t = sq(f + df, r + dir);
                        match self.at(f + df, r + dir) {
                            Some((c2, _)) if c2 == them => self.push_pawn_moves(&mut out, s, t, true, false),
                            None if self.ep == Some(t) => {
                                // FIDE 3.7.d: only directly after the double step, the passed square is `ep`
                                // and the pawn to be removed stands behind it
                                if self.at(f + df, r) == Some((them, Kind::P)) {
                                    self.push_pawn_moves(&mut out, s, t, true, true);
                                }
                            }
                            _ => {}
                        }
                    }
                }
                Kind::N | Kind::K => {
                    let ds = if k == Kind::N { KNIGHT_D } else { KING_D };
                    for (df, dr) in ds {
                        if !on_board(f + df, r + dr) {
                            continue;
                        }
                        match self.at(f + df, r + dr) {
                            None => out.push(RMove { from: s, to: sq(f + df, r + dr), promo: None, capture: false, ep: false, castle: false }),
                            Some((c2, _)) if c2 == them => out.push(RMove { from: s, to: sq(f + df, r + dr), promo: None, capture: true, ep: false, castle: false }),
                            _ => {}
                        }
                    }
                }
                Kind::B | Kind::R | Kind::Q => {
                    let mut dirs: Vec<(i32, i32)> = vec![];
                    if k != Kind::B {
                        dirs.extend(ROOK_D);
                    }
                    if k != Kind::R {
                        dirs.extend(BISHOP_D);
                    }
                    for (df, dr) in dirs {
                        let (mut ff, mut rr) = (f + df, r + dr);
                        while on_board(ff, rr) {
                            match self.at(ff, rr) {
                                None => out.push(RMove { from: s, to: sq(ff, rr), promo: None, capture: false, ep: false, castle: false }),
                                Some((c2, _)) => {
                                    if c2 == them {
                                        out.push(RMove { from: s, to: sq(ff, rr), promo: None, capture: true, ep: false, castle: false });
                                    }
                                    break;
                                }
                            }
                            ff += df;
                            rr += dr;
                        }
                    }
                }
            }
        }
        // Castling, FIDE 3.8.2
        let (rank, ki, qi) = if us == Color::W { (0, WK, WQ) } else { (7, BK, BQ) };
        if self.at(4, rank) == Some((us, Kind::K)) && !self.attacked(sq(4, rank), them) {
            if self.castle[ki]
                && self.at(7, rank) == Some((us, Kind::R))
                && self.at(5, rank).is_none()
                && self.at(6, rank).is_none()
                && !self.attacked(sq(5, rank), them)
                && !self.attacked(sq(6, rank), them)
            {
                out.push(RMove { from: sq(4, rank), to: sq(6, rank), promo: None, capture: false, ep: false, castle: true });
            }
            if self.castle[qi]
                && self.at(0, rank) == Some((us, Kind::R))
                && self.at(1, rank).is_none()
                && self.at(2, rank).is_none()
                && self.at(3, rank).is_none()
                && !self.attacked(sq(3, rank), them)
                && !self.attacked(sq(2, rank), them)
            {
                out.push(RMove { from: sq(4, rank), to: sq(2, rank), promo: None, capture: false, ep: false, castle: true });
            }
        }
        out
    }

    /// Board after the move, nothing else updated (for legality tests).
    fn board_after(&self, m: &RMove) -> [Option<(Color, Kind)>; 64] {
        let mut b = self.board;
        let (c, k) = b[m.from as usize].expect("move from empty square");
        b[m.from as usize] = None;
        if m.ep {
            let victim = sq(file_of(m.to), rank_of(m.from));
            b[victim as usize] = None;
        }
        b[m.to as usize] = Some((c, m.promo.unwrap_or(k)));
        if m.castle {
            let r = rank_of(m.from);
            if file_of(m.to) == 6 {
                b[sq(7, r) as usize] = None;
                b[sq(5, r) as usize] = Some((c, Kind::R));
            } else {
                b[sq(0, r) as usize] = None;
                b[sq(3, r) as usize] = Some((c, Kind::R));
            }
        }
        b
    }

    pub fn legal_moves(&self) -> Vec<RMove> {
        let us = self.side;
        let mut out = vec![];
        for m in self.pseudo_moves() {
            let mut p = self.clone();
            p.board = self.board_after(&m);
            if !p.in_check(us) {
                out.push(m);
            }
        }
        out
    }

    /// The position after `m` according to the rules.
    pub fn apply(&self, m: &RMove) -> Pos {
        let us = self.side;
        let (_, k) = self.board[m.from as usize].expect("move from empty square");
        let captured = if m.ep { Some((us.other(), Kind::P)) } else { self.board[m.to as usize] };
        let mut p = self.clone();
        p.board = self.board_after(m);
        p.side = us.other();
        // castling rights
        let home_rank = |c: Color| if c == Color::W { 0 } else { 7 };
        let idx = |c: Color| if c == Color::W { (WK, WQ) } else { (BK, BQ) };
        if k == Kind::K && m.from == sq(4, home_rank(us)) {
            let (a, b) = idx(us);
            p.castle[a] = false;
            p.castle[b] = false;
        }
        if k == Kind::R {
            let (a, b) = idx(us);
            if m.from == sq(7, home_rank(us)) {
                p.castle[a] = false;
            }
            if m.from == sq(0, home_rank(us)) {
                p.castle[b] = false;
            }
        }
        if captured.is_some() && !m.ep {
            let them = us.other();
            let (a, b) = idx(them);
            if m.to == sq(7, home_rank(them)) {
                p.castle[a] = false;
            }
            if m.to == sq(0, home_rank(them)) {
                p.castle[b] = false;
            }
        }
        // en passant
        p.ep = None;
        if k == Kind::P && (rank_of(m.to) - rank_of(m.from)).abs() == 2 {
            p.ep = Some(sq(file_of(m.from), (rank_of(m.from) + rank_of(m.to)) / 2));
        }
        // clocks
        if k == Kind::P || captured.is_some() {
            p.halfmove = 0;
        } else {
            p.halfmove = self.halfmove + 1;
        }
        if us == Color::B {
            p.fullmove = self.fullmove + 1;
        }
        p
    }

    /// Null move as a search uses it: side flips, en-passant right lapses, halfmove clock unchanged.
    pub fn apply_null(&self) -> Pos {
        let mut p = self.clone();
        p.side = self.side.other();
        p.ep = None;
        if self.side == Color::B {
            p.fullmove = self.fullmove + 1;
        }
        p
    }

    /// An enemy (= side to move) pawn stands beside the pawn that just double-stepped.
    pub fn ep_adjacent(&self) -> bool {
        let Some(e) = self.ep else { return false };
        let us = self.side;
        let pr = if us == Color::W { rank_of(e) - 1 } else { rank_of(e) + 1 };
        [-1, 1].iter().any(|df| self.at(file_of(e) + df, pr) == Some((us, Kind::P)))
    }

    /// A legal en-passant capture exists.
    pub fn ep_capturable(&self) -> bool {
        self.ep.is_some() && self.legal_moves().iter().any(|m| m.ep)
    }

    pub fn is_checkmate(&self) -> bool {
        self.in_check(self.side) && self.legal_moves().is_empty()
    }

    pub fn is_stalemate(&self) -> bool {
        !self.in_check(self.side) && self.legal_moves().is_empty()
    }

    /// Legality of the position itself as the properties define it.
    pub fn is_legal_position(&self) -> bool {
        let mut wk = 0;
        let mut bk = 0;
        for s in 0..64u8 {
            match self.board[s as usize] {
                Some((Color::W, Kind::K)) => wk += 1,
                Some((Color::B, Kind::K)) => bk += 1,
                Some((_, Kind::P)) if rank_of(s) == 0 || rank_of(s) == 7 => return false,
                _ => {}
            }
        }
        if wk != 1 || bk != 1 {
            return false;
        }
        if self.in_check(self.side.other()) {
            return false;
        }
        // castling rights consistent with placement
        for (i, (c, kf, rf, rank)) in [(Color::W, 4, 7, 0), (Color::W, 4, 0, 0), (Color::B, 4, 7, 7), (Color::B, 4, 0, 7)].iter().enumerate() {
            if self.castle[i] && (self.at(*kf, *rank) != Some((*c, Kind::K)) || self.at(*rf, *rank) != Some((*c, Kind::R))) {
                return false;
            }
        }
        // en-passant target consistent with placement
        if let Some(e) = self.ep {
            let them = self.side.other();
            let (er, pr, orr) = if them == Color::W { (2, 3, 1) } else { (5, 4, 6) };
            if rank_of(e) != er {
                return false;
            }
            if self.at(file_of(e), pr) != Some((them, Kind::P)) || self.at(file_of(e), er).is_some() || self.at(file_of(e), orr).is_some() {
                return false;
            }
        }
        true
    }

    // ------------------------------------------------------------------ FEN

    pub fn to_fen_with_ep(&self, ep: Option<Sq>) -> String {
        let mut s = String::new();
        for r in (0..8).rev() {
            let mut empty = 0;
            for f in 0..8 {
                match self.at(f, r) {
                    None => empty += 1,
                    Some((c, k)) => {
                        if empty > 0 {
                            s.push_str(&empty.to_string());
                            empty = 0;
                        }
                        s.push(piece_char(c, k));
                    }
                }
            }
            if empty > 0 {
                s.push_str(&empty.to_string());
            }
            if r > 0 {
                s.push('/');
            }
        }
        s.push(' ');
        s.push(if self.side == Color::W { 'w' } else { 'b' });
        s.push(' ');
        let mut any = false;
        for (i, ch) in ['K', 'Q', 'k', 'q'].iter().enumerate() {
            if self.castle[i] {
                s.push(*ch);
                any = true;
            }
        }
        if !any {
            s.push('-');
        }
        s.push(' ');
        match ep {
            Some(e) => s.push_str(&sq_name(e)),
            None => s.push('-'),
        }
        s.push_str(&format!(" {} {}", self.halfmove, self.fullmove));
        s
    }

    /// FEN with the en-passant field written the way most engines (and this one) do: only when an
    /// enemy pawn stands beside the pushed pawn.
    pub fn to_fen(&self) -> String {
        self.to_fen_with_ep(if self.ep_adjacent() { self.ep } else { None })
    }

    pub fn from_fen(fen: &str) -> Result<Pos, String> {
        let parts: Vec<&str> = fen.split_whitespace().collect();
        if parts.len() < 4 {
            return Err("too few fields".into());
        }
        let mut p = Pos::empty();
        let ranks: Vec<&str> = parts[0].split('/').collect();
        if ranks.len() != 8 {
            return Err("not 8 ranks".into());
        }
        for (i, rs) in ranks.iter().enumerate() {
            let r = 7 - i as i32;
            let mut f = 0;
            for ch in rs.chars() {
                if let Some(d) = ch.to_digit(10) {
                    if d == 0 || d > 8 {
                        return Err("bad digit".into());
                    }
                    f += d as i32;
                } else {
                    let pc = char_piece(ch).ok_or("bad piece")?;
                    if f > 7 {
                        return Err("rank too wide".into());
                    }
                    p.board[sq(f, r) as usize] = Some(pc);
                    f += 1;
                }
            }
            if f != 8 {
                return Err("rank width".into());
            }
        }
        p.side = match parts[1] {
            "w" => Color::W,
            "b" => Color::B,
            _ => return Err("bad side".into()),
        };
        if parts[2] != "-" {
            for ch in parts[2].chars() {
                match ch {
                    'K' => p.castle[WK] = true,
                    'Q' => p.castle[WQ] = true,
                    'k' => p.castle[BK] = true,
                    'q' => p.castle[BQ] = true,
                    _ => return Err("bad castling".into()),
                }
            }
        }
        p.ep = if parts[3] == "-" { None } else { Some(parse_sq(parts[3]).ok_or("bad ep")?) };
        p.halfmove = if parts.len() > 4 { parts[4].parse().map_err(|_| "bad halfmove")? } else { 0 };
        p.fullmove = if parts.len() > 5 { parts[5].parse().map_err(|_| "bad fullmove")? } else { 1 };
        Ok(p)
    }

    pub fn startpos() -> Pos {
        Pos::from_fen("rnbqkbnr/pppppppp/8/8/8/8/PPPPPPPP/RNBQKBNR w KQkq - 0 1").unwrap()
    }

    /// Colour-mirrored twin: ranks flipped, colours swapped, side, rights and ep mirrored.
    pub fn mirror(&self) -> Pos {
        let mut p = Pos::empty();
        for s in 0..64u8 {
            if let Some((c, k)) = self.board[s as usize] {
                p.board[mirror_sq(s) as usize] = Some((c.other(), k));
            }
        }
        p.side = self.side.other();
        p.castle = [self.castle[BK], self.castle[BQ], self.castle[WK], self.castle[WQ]];
        p.ep = self.ep.map(mirror_sq);
        p.halfmove = self.halfmove;
        p.fullmove = self.fullmove;
        p
    }

    pub fn perft(&self, d: u32) -> u64 {
        if d == 0 {
            return 1;
        }
        let ms = self.legal_moves();
        if d == 1 {
            return ms.len() as u64;
        }
        ms.iter().map(|m| self.apply(m).perft(d - 1)).sum()
    }

    // ------------------------------------------------------------------ SAN (PGN standard 8.2.3)

    /// SAN without check suffix, plus whether the move gives check and whether it mates.
    pub fn san(&self, m: &RMove, legal: &[RMove]) -> (String, bool, bool) {
        let (_, k) = self.board[m.from as usize].unwrap();
        let mut s = String::new();
        if m.castle {
            s.push_str(if file_of(m.to) == 6 { "O-O" } else { "O-O-O" });
        } else if k == Kind::P {
            if m.capture {
                s.push((b'a' + m.from % 8) as char);
                s.push('x');
            }
            s.push_str(&sq_name(m.to));
            if let Some(pk) = m.promo {
                s.push('=');
                s.push(piece_char(Color::W, pk));
            }
        } else {
            s.push(piece_char(Color::W, k));
            let others: Vec<&RMove> = legal
                .iter()
                .filter(|o| o.to == m.to && o.from != m.from && self.board[o.from as usize].map(|x| x.1) == Some(k))
                .collect();
            if !others.is_empty() {
                let same_file = others.iter().any(|o| file_of(o.from) == file_of(m.from));
                let same_rank = others.iter().any(|o| rank_of(o.from) == rank_of(m.from));
                if !same_file {
                    s.push((b'a' + m.from % 8) as char);
                } else if !same_rank {
                    s.push((b'1' + m.from / 8) as char);
                } else {
                    s.push_str(&sq_name(m.from));
                }
            }
            if m.capture {
                s.push('x');
            }
            s.push_str(&sq_name(m.to));
        }
        let after = self.apply(m);
        let chk = after.in_check(after.side);
        let mate = chk && after.legal_moves().is_empty();
        (s, chk, mate)
    }
}

pub fn mirror_sq(s: Sq) -> Sq {
    sq(file_of(s), 7 - rank_of(s))
}

pub fn mirror_move(m: &RMove) -> RMove {
    RMove { from: mirror_sq(m.from), to: mirror_sq(m.to), ..*m }
}

pub fn piece_char(c: Color, k: Kind) -> char {
    let ch = match k {
        Kind::P => 'P',
        Kind::N => 'N',
        Kind::B => 'B',
        Kind::R => 'R',
        Kind::Q => 'Q',
        Kind::K => 'K',
    };
    if c == Color::W {
        ch
    } else {
        ch.to_ascii_lowercase()
    }
}

pub fn char_piece(ch: char) -> Option<(Color, Kind)> {
    let k = match ch.to_ascii_uppercase() {
        'P' => Kind::P,
        'N' => Kind::N,
        'B' => Kind::B,
        'R' => Kind::R,
        'Q' => Kind::Q,
        'K' => Kind::K,
        _ => return None,
    };
    Some((if ch.is_ascii_uppercase() { Color::W } else { Color::B }, k))
}

// ---------------------------------------------------------------------- static exchange (swap list)

/// Result of the reference exchange evaluation of a capture `m` (not en passant).
pub struct SeeRef {
    /// minimax value of the exchange for the side making `m`, in `values` units
    pub value: i32,
    /// at some step the side to move had two or more least-valuable attackers of equal value on
    /// different squares (so an implementation's choice among them could matter)
    pub tie: bool,
    /// the target square has no enemy attacker after the capture (x-rays through the vacated square included)
    pub undefended: bool,
}

/// Swap-list SEE. `values[k]` is the value of piece kind k (P..K). A king may capture only if the
/// opponent has no attacker left ("king may not capture into defence").
pub fn see_ref(pos: &Pos, m: &RMove, values: &[i32; 6]) -> SeeRef {
    assert!(!m.ep);
    let v = |k: Kind| values[k as usize];
    let us = pos.side;
    let (_, mover) = pos.board[m.from as usize].unwrap();
    let mut p = pos.clone();
    let mut gain: Vec<i32> = vec![];
    let mut first = pos.board[m.to as usize].map(|x| v(x.1)).unwrap_or(0);
    let mut on_sq = mover;
    if let Some(pk) = m.promo {
        first += v(pk) - v(Kind::P);
        on_sq = pk;
    }
    gain.push(first);
    p.board[m.from as usize] = None;
    p.board[m.to as usize] = Some((us, on_sq));
    let mut side = us.other();
    let mut tie = false;
    let undefended = p.attackers(m.to, side).is_empty();
    loop {
        let att = p.attackers(m.to, side);
        if att.is_empty() {
            break;
        }
        // least valuable attacker
        let minv = att.iter().map(|&s| v(p.board[s as usize].unwrap().1)).min().unwrap();
        let cands: Vec<Sq> = att.iter().copied().filter(|&s| v(p.board[s as usize].unwrap().1) == minv).collect();
        if cands.len() > 1 {
            tie = true;
        }
        let a = cands[0];
        let ak = p.board[a as usize].unwrap().1;
        if ak == Kind::K && !p.attackers(m.to, side.other()).is_empty() {
            // also: is there a non-king attacker? the least valuable being the king means only the king attacks
            break;
        }
        // capture
        gain.push(v(on_sq) - gain[gain.len() - 1]);
        p.board[a as usize] = None;
        p.board[m.to as usize] = Some((side, ak));
        on_sq = ak;
        side = side.other();
    }
    // negamax the swap list from the back: each side may stop capturing
    let mut i = gain.len() - 1;
    while i > 0 {
        gain[i - 1] = -std::cmp::max(-gain[i - 1], gain[i]);
        i -= 1;
    }
    SeeRef { value: gain[0], tie, undefended }
}

// ---------------------------------------------------------------------- self test

pub fn self_test() -> Result<(), String> {
    let cases: [(&str, &[u64]); 6] = [
        ("rnbqkbnr/pppppppp/8/8/8/8/PPPPPPPP/RNBQKBNR w KQkq - 0 1", &[20, 400, 8902, 197281]),
        ("r3k2r/p1ppqpb1/bn2pnp1/3PN3/1p2P3/2N2Q1p/PPPBBPPP/R3K2R w KQkq - 0 1", &[48, 2039, 97862]),
        ("8/2p5/3p4/KP5r/1R3p1k/8/4P1P1/8 w - - 0 1", &[14, 191, 2812, 43238]),
        ("r3k2r/Pppp1ppp/1b3nbN/nP6/BBP1P3/q4N2/Pp1P2PP/R2Q1RK1 w kq - 0 1", &[6, 264, 9467]),
        ("rnbq1k1r/pp1Pbppp/2p5/8/2B5/8/PPP1NnPP/RNBQK2R w KQ - 1 8", &[44, 1486, 62379]),
        ("r4rk1/1pp1qppp/p1np1n2/2b1p1B1/2B1P1b1/P1NP1N2/1PP1QPPP/R4RK1 w - - 0 10", &[46, 2079, 89890]),
    ];
    for (fen, exp) in cases {
        let p = Pos::from_fen(fen)?;
        if p.to_fen_with_ep(p.ep) != fen {
            return Err(format!("refchess FEN round trip failed for {fen}"));
        }
        for (d, e) in exp.iter().enumerate() {
            let got = p.perft(d as u32 + 1);
            if got != *e {
                return Err(format!("refchess perft({}) of {} = {}, published {}", d + 1, fen, got, e));
            }
        }
    }
    // SEE sanity: QxP defended by pawn loses 800; RxR defended is 0; undefended pawn wins 100
    let vals = [100, 300, 300, 500, 900, 10000];
    let p = Pos::from_fen("k7/8/2p5/3p4/8/8/3Q4/K7 w - - 0 1")?;
    let m = RMove { from: sq(3, 1), to: sq(3, 4), promo: None, capture: true, ep: false, castle: false };
    if see_ref(&p, &m, &vals).value != 100 - 900 {
        return Err("refchess SEE self test 1".into());
    }
    let p = Pos::from_fen("2kr4/8/8/8/8/8/8/K2R4 w - - 0 1")?;
    let m = RMove { from: sq(3, 0), to: sq(3, 7), promo: None, capture: true, ep: false, castle: false };
    let r = see_ref(&p, &m, &vals);
    if r.value != 0 || r.undefended {
        return Err(format!("refchess SEE self test 2: {}", r.value));
    }
    Ok(())
}
