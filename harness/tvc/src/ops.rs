//! E2: Game-operation DFS. From a seed, every nested sequence of make(m) for every legal m, null move
//! (only when not in check and not directly after a null move — the search's discipline) and the
//! matching take-backs, up to a nesting depth, performed on ONE `Game` object per shard (so residue
//! of an earlier make/take-back pair would be visible to later siblings). Reference: a stack of
//! refchess positions. Used by C02, C03, C15 (with null moves) and C11 (real moves only, with the
//! repetition / fifty-move oracle over the path).

#![allow(dead_code)]

use crate::chess::game::Game;
use crate::chess::moves::Move;
use crate::chess::zobrist;
use crate::eng::{self, Ident};
use crate::monitors::{self as mo, bump, Counts, Ctx, Snapshot};
use crate::refchess::{Pos, RMove};
use crate::util::{catch, par_for, J};
use std::sync::Mutex;

#[derive(Clone, Copy)]
pub struct OpMon {
    pub rules: bool,    // C02
    pub key: bool,      // C03
    pub accum: bool,    // C15
    pub draws: bool,    // C11
    pub nulls: bool,
}

struct Walk<'a> {
    ctx: &'a Ctx<'a>,
    om: OpMon,
    seed_fen: String,
    ops: Vec<String>,
    /// every operation executed on this game object so far, in order (never popped): what a replay must repeat
    /// when the outcome depends on earlier operations that were taken back
    trace: Vec<String>,
    /// reference positions along the current path (index 0 = seed)
    refs: Vec<Pos>,
    /// for C11: identities under the two tolerated en-passant conventions, and whether the move
    /// leading to each position was irreversible
    id_adj: Vec<Ident>,
    id_legal: Vec<Ident>,
    irreversible: Vec<bool>,
    c: Counts,
    nodes: u64,
    edges: u64,
}

fn ops_case(seed_fen: &str, ops: &[String], check: &str) -> J {
    J::obj(vec![("kind", J::s("ops")), ("seed_fen", J::s(seed_fen)), ("ops", J::Arr(ops.iter().map(|o| J::s(o.clone())).collect())), ("check", J::s(check))])
}

impl<'a> Walk<'a> {
    fn vio(&self, kind: &str, detail: String) {
        let key = format!("{kind}|{} ops {}", self.seed_fen, self.ops.join(" "));
        // the replayable case is the complete operation trace where that is short enough, else the path from the root
        let case_ops = if self.trace.len() <= 40000 { &self.trace } else { &self.ops };
        self.ctx.run.violation(kind, key, ops_case(&self.seed_fen, case_ops, kind), detail);
    }

    fn check_node(&mut self, g: &Game) {
        self.nodes += 1;
        let r = self.refs.last().unwrap().clone();
        // a raw FEN root keeps the en-passant field of its text: the tolerant rule is about make_move
        let raw_root = self.ops.is_empty() && self.seed_fen.starts_with("raw:");
        if self.om.rules {
            if raw_root {
                if g.en_passant_target.map(|s| s.idx()) != r.ep {
                    self.vio("ops-position", format!("from_fen keeps en-passant target {:?}, the text says {:?}", g.en_passant_target, r.ep.map(crate::refchess::sq_name)));
                }
            } else if let Err(e) = mo::compare_with_ref(g, &r) {
                self.vio("ops-position", e);
            }
            if let Err(e) = mo::board_views_agree(g) {
                self.vio("board-views", e);
            }
        }
        if self.om.key {
            let h = zobrist::hash(g);
            if h != g.zobrist {
                self.vio("key-not-recomputation", format!("carried key {:#018x} != recomputed {:#018x}", g.zobrist.0, h.0));
            }
            let id = eng::ident_of(&eng::from_game(g), g.en_passant_target.map(|s| s.idx()));
            if let Some(other) = self.ctx.keymap.bind(h.0, id) {
                let op = eng::pos_of_ident(&other);
                self.vio("key-collision", format!("key {:#018x} shared with different position {}", h.0, op.to_fen_with_ep(op.ep)));
            }
            if let Ok(g0) = catch(|| Game::from_state(g.board.clone(), g.player, g.castle_rights.clone(), g.en_passant_target, 0, 0)) {
                if g0.zobrist != g.zobrist {
                    self.vio("key-depends-on-history", format!("key {:#018x} with halfmove clock {} and ply count {}, key {:#018x} for the same placement, side, rights and en-passant target with both counters at 0", g.zobrist.0, g.halfmove_clock, g.plies, g0.zobrist.0));
                }
            }
            if let Some(other) = self.ctx.keymap.bind_rev(g.zobrist.0, id) {
                self.vio("key-depends-on-history", format!("this position (placement, side, rights, en-passant target) has key {:#018x} here and had key {other:#018x} when it was met before (halfmove clock here {})", g.zobrist.0, g.halfmove_clock));
            }
        }
        if self.om.accum {
            let init = crate::engine::eval::IncrementalEvalFields::init(&g.board);
            if init.phase_value != g.incremental_eval.phase_value || init.piece_square_tables != g.incremental_eval.piece_square_tables {
                self.vio(
                    "accumulators-not-recomputation",
                    format!("carried ({}, {:?}) != recomputed ({}, {:?})", g.incremental_eval.phase_value, g.incremental_eval.piece_square_tables, init.phase_value, init.piece_square_tables),
                );
            }
        }
        if self.om.accum {
            self.check_eval_path(g);
        }
        if self.om.draws {
            self.check_draws(g, &r);
        }
    }

    /// The static evaluation of the game object as it stands (after whatever operations led here) equals the
    /// evaluation of the same position set up from its FEN text: no dependence on the path.
    fn check_eval_path(&mut self, g: &Game) {
        let here = catch(|| crate::engine::eval::eval(g));
        let fresh = catch(|| crate::engine::eval::eval(&Game::from_fen(&g.to_fen()).unwrap()));
        match (here, fresh) {
            (Ok(a), Ok(b)) => {
                bump(&mut self.c, "eval_path_checks");
                if a != b {
                    self.vio("eval-path-dependent", format!("eval of the game object = {a:?}, eval of the same position read from its FEN = {b:?}"));
                }
            }
            (Err(e), Ok(_)) => self.vio("eval-path-dependent", format!("eval of the game object panics ({e}), eval of the same position read from its FEN does not")),
            _ => {}
        }
    }

    fn check_draws(&mut self, g: &Game, r: &Pos) {
        let n = self.refs.len();
        // window: positions since the last irreversible move (the position right after it included)
        let mut start = n - 1;
        while start > 0 && !self.irreversible[start] {
            start -= 1;
        }
        let rep = |ids: &Vec<Ident>| (start..n - 1).any(|i| ids[i] == ids[n - 1]);
        let (ra, rl) = (rep(&self.id_adj), rep(&self.id_legal));
        let got = match catch(|| g.is_repeated_position()) {
            Ok(v) => v,
            Err(e) => {
                self.vio("repetition-panic", e);
                return;
            }
        };
        if ra == rl {
            if ra {
                bump(&mut self.c, "repeated_positions");
            }
            if got != ra {
                self.vio("repetition-verdict", format!("is_repeated_position() = {got}, history says {ra} (window of {} earlier positions)", n - 1 - start));
            }
        } else {
            bump(&mut self.c, "repetition_ep_convention_dependent_unasserted");
        }
        let has_move = !r.legal_moves().is_empty();
        let want = r.halfmove >= 100 && has_move;
        if r.halfmove >= 100 {
            bump(&mut self.c, "clock_at_least_100");
            if !has_move {
                bump(&mut self.c, "clock_100_and_no_legal_move");
            }
        }
        match catch(|| g.is_stalemate_by_fifty_move_rule()) {
            Ok(v) if v != want => self.vio("fifty-move-verdict", format!("is_stalemate_by_fifty_move_rule() = {v}, clock {} and legal move exists: {has_move}", r.halfmove)),
            Err(e) => self.vio("fifty-move-panic", e),
            _ => {}
        }
        // the dead-material verdict of a position reached by moves (whatever was captured on the way)
        let (mut minors, mut others) = (0, 0);
        for x in r.board.iter().flatten() {
            match x.1 {
                crate::refchess::Kind::N | crate::refchess::Kind::B => minors += 1,
                crate::refchess::Kind::K => {}
                _ => others += 1,
            }
        }
        if let Ok(v) = catch(|| g.is_stalemate_by_insufficient_material()) {
            if others == 0 && minors <= 1 {
                bump(&mut self.c, "material_must_be_draw");
                if !v {
                    self.vio("material-rule", format!("bare kings / king and minor v king reached by moves, not declared insufficient ({})", r.to_fen()));
                }
            } else if others > 0 || minors > 2 {
                bump(&mut self.c, "material_must_not_be_draw");
                if v {
                    self.vio("material-rule", format!("declared insufficient with a pawn, rook or queen on the board or more than two minors ({})", r.to_fen()));
                }
            }
        }
    }

    fn push_ref(&mut self, p: Pos, irreversible: bool) {
        let adj = if p.ep_adjacent() { p.ep } else { None };
        let legal = if p.ep_capturable() { p.ep } else { None };
        self.id_adj.push(eng::ident_of(&p, adj));
        self.id_legal.push(eng::ident_of(&p, legal));
        self.irreversible.push(irreversible);
        self.refs.push(p);
    }

    fn pop_ref(&mut self) {
        self.refs.pop();
        self.id_adj.pop();
        self.id_legal.pop();
        self.irreversible.pop();
    }

    fn rec(&mut self, g: &mut Game, left: usize, last_was_null: bool) {
        self.check_node(g);
        if left == 0 {
            return;
        }
        let r = self.refs.last().unwrap().clone();
        let ref_moves = r.legal_moves();
        let eng_moves: Vec<Move> = match catch(|| g.moves()) {
            Ok(l) => l.iter().copied().collect(),
            Err(e) => {
                self.vio("movegen-panic", e);
                return;
            }
        };
        let mut pairs: Vec<(Move, RMove)> = vec![];
        for em in eng_moves {
            let x = eng::move_from_eng(em);
            if let Some(rm) = ref_moves.iter().find(|m| m.from == x.from && m.to == x.to && m.promo == x.promo) {
                pairs.push((em, *rm));
            }
        }
        // the null move comes first (with its subtree) AND once more after the real moves (bare make / take back),
        // so that both "null, take back, move" and "move, take back, null" happen on this one game object
        if !self.null_block(g, &r, left, last_was_null, true) {
            return;
        }
        for (em, rm) in pairs {
            let before: Snapshot = mo::snapshot(g);
            self.edges += 1;
            if rm.ep {
                bump(&mut self.c, "op_en_passant");
            }
            if rm.castle {
                bump(&mut self.c, "op_castling");
            }
            if rm.promo.is_some() {
                bump(&mut self.c, "op_promotion");
            }
            self.ops.push(rm.uci());
            self.trace.push(self.ops.last().unwrap().clone());
            if let Err(e) = catch(|| g.make_move(em)) {
                self.vio("make-move-panic", e);
                self.ops.pop();
                return; // the game object is no longer trustworthy
            }
            let (_, k) = r.board[rm.from as usize].unwrap();
            let irreversible = rm.capture || k == crate::refchess::Kind::P;
            self.push_ref(r.apply(&rm), irreversible);
            self.rec(g, left - 1, false);
            self.pop_ref();
            self.ops.push("undo".into());
            self.trace.push(self.ops.last().unwrap().clone());
            if let Err(e) = catch(|| g.undo_move()) {
                self.vio("undo-move-panic", e);
                return;
            }
            let after = mo::snapshot(g);
            if self.om.accum {
                self.check_eval_path(g);
            }
            if after != before {
                if self.om.rules {
                    self.vio("undo-not-exact", format!("take back of {} does not restore the game: {}", rm.uci(), mo::diff_snap(&before, &after)));
                } else if self.om.key && after.key != before.key {
                    self.vio("key-after-undo", format!("key {:#018x} after take back of {}, was {:#018x}", after.key, rm.uci(), before.key));
                } else if self.om.accum && (after.phase, after.pst_mg, after.pst_eg) != (before.phase, before.pst_mg, before.pst_eg) {
                    self.vio("accumulators-after-undo", format!("accumulators after take back of {} differ", rm.uci()));
                }
            }
            self.ops.pop();
            self.ops.pop();
        }
        let _ = self.null_block(g, &r, left, last_was_null, false);
    }

    /// Null move, its subtree (only when `recurse`), take back. Returns false if the game object is no longer usable.
    fn null_block(&mut self, g: &mut Game, r: &Pos, left: usize, last_was_null: bool, recurse: bool) -> bool {
        // the draw verdicts of this node must not be disturbed by a null move that is made and taken back (the search
        // does that at almost every node); the subtree below the null move is not judged (no game continues there)
        if self.om.draws && !self.om.nulls && recurse && !last_was_null && !r.in_check(r.side) {
            self.ops.push("null".into());
            self.trace.push("null".into());
            self.ops.push("undo-null".into());
            self.trace.push("undo-null".into());
            let ok = catch(|| {
                g.make_null_move();
                g.undo_null_move();
            });
            match ok {
                Ok(()) => {
                    bump(&mut self.c, "draws_rejudged_after_null");
                    self.check_draws(g, r);
                }
                Err(e) => self.vio("null-move-panic", e),
            }
            self.ops.pop();
            self.ops.pop();
        }
        if self.om.nulls && !last_was_null && !r.in_check(r.side) {
            let before = mo::snapshot(g);
            self.edges += 1;
            bump(&mut self.c, "op_null");
            if r.ep.is_some() && g.en_passant_target.is_some() {
                bump(&mut self.c, "op_null_with_ep_target");
            }
            self.ops.push("null".into());
            self.trace.push(self.ops.last().unwrap().clone());
            if let Err(e) = catch(|| g.make_null_move()) {
                self.vio("null-move-panic", e);
                self.ops.pop();
                return false;
            }
            self.push_ref(r.apply_null(), false);
            self.rec(g, if recurse { left - 1 } else { 0 }, true);
            self.pop_ref();
            self.ops.push("undo-null".into());
            self.trace.push(self.ops.last().unwrap().clone());
            if let Err(e) = catch(|| g.undo_null_move()) {
                self.vio("undo-null-panic", e);
                return false;
            }
            let after = mo::snapshot(g);
            if self.om.accum {
                self.check_eval_path(g);
            }
            if after != before {
                if self.om.rules {
                    self.vio("undo-null-not-exact", format!("take back of a null move does not restore the game: {}", mo::diff_snap(&before, &after)));
                } else if self.om.key && after.key != before.key {
                    self.vio("key-after-undo", format!("key {:#018x} after null move take back, was {:#018x}", after.key, before.key));
                } else if self.om.accum && (after.phase, after.pst_mg, after.pst_eg) != (before.phase, before.pst_mg, before.pst_eg) {
                    self.vio("accumulators-after-undo", "accumulators differ after null move take back".into());
                }
            }
            self.ops.pop();
            self.ops.pop();
        }
        true
    }
}

/// Walk all seeds in parallel (one shard per seed and first operation). Returns (nodes, edges).
/// Roots given as standard FEN text whose en-passant field is set although no pawn can capture there
/// (most programs write the field after every double step). Built through Game::from_fen.
pub const RAW_FEN_ROOTS: [&str; 5] = [
    "rnbqkbnr/pppppppp/8/8/4P3/8/PPPP1PPP/RNBQKBNR b KQkq e3 0 1",
    "rnbqkb1r/pppppppp/5n2/8/2PP4/8/PP2PPPP/RNBQKBNR b KQkq c3 0 2",
    "rnbqkbnr/pp1ppppp/8/2p5/4P3/8/PPPP1PPP/RNBQKBNR w KQkq c6 0 2",
    "4k3/8/8/8/r2pP2K/8/8/8 b - e3 0 1",
    "r3k2r/8/8/8/1p6/8/P7/R3K2R w KQkq - 0 1",
];

pub fn run_ops(ctx: &Ctx, om: OpMon, seeds: &[(String, Pos, usize)], total: &Mutex<Counts>) -> (u64, u64) {
    // shards: (seed index, first-op index or none)
    let mut shards: Vec<(usize, usize)> = vec![];
    for (i, (name, p, _)) in seeds.iter().enumerate() {
        if !p.is_legal_position() {
            ctx.run.machinery_error(format!("ops seed {name} is not a legal position"));
            continue;
        }
        let n = p.legal_moves().len() + 1;
        for k in 0..n {
            shards.push((i, k));
        }
    }
    let stats = Mutex::new((0u64, 0u64));
    par_for(shards.len(), |si| {
        let (i, k) = shards[si];
        let (name, seed, depth) = &seeds[i];
        let raw = name.starts_with("raw:");
        let mut g = if raw { Game::from_fen(&seed.to_fen_with_ep(seed.ep)).expect("raw FEN root") } else { eng::to_game(seed) };
        let mut w = Walk {
            ctx,
            om,
            seed_fen: if raw { format!("raw:{}", seed.to_fen_with_ep(seed.ep)) } else { seed.to_fen() },
            ops: vec![],
            trace: vec![],
            refs: vec![],
            id_adj: vec![],
            id_legal: vec![],
            irreversible: vec![],
            c: Counts::new(),
            nodes: 0,
            edges: 0,
        };
        w.push_ref(seed.clone(), false);
        // restrict the first level to operation k by walking depth 1 selectively
        w.rec_first(&mut g, *depth, k);
        let mut t = total.lock().unwrap();
        for (kk, v) in w.c {
            *t.entry(kk).or_insert(0) += v;
        }
        drop(t);
        let mut s = stats.lock().unwrap();
        s.0 += w.nodes;
        s.1 += w.edges;
    });
    let s = *stats.lock().unwrap();
    s
}

impl<'a> Walk<'a> {
    /// First level: only the k-th operation (moves in reference order, then the null move), so that
    /// shards partition the tree. The root node itself is checked by shard 0 only.
    fn rec_first(&mut self, g: &mut Game, left: usize, k: usize) {
        if k == 0 {
            self.check_node(g);
        }
        if left == 0 {
            return;
        }
        let r = self.refs.last().unwrap().clone();
        let ref_moves = r.legal_moves();
        if k < ref_moves.len() {
            let rm = ref_moves[k];
            let Some(em) = g.moves().iter().copied().find(|m| {
                let x = eng::move_from_eng(*m);
                x.from == rm.from && x.to == rm.to && x.promo == rm.promo
            }) else {
                return;
            };
            let before = mo::snapshot(g);
            self.edges += 1;
            self.ops.push(rm.uci());
            self.trace.push(self.ops.last().unwrap().clone());
            if let Err(e) = catch(|| g.make_move(em)) {
                self.vio("make-move-panic", e);
                return;
            }
            let (_, kind) = r.board[rm.from as usize].unwrap();
            self.push_ref(r.apply(&rm), rm.capture || kind == crate::refchess::Kind::P);
            self.rec(g, left - 1, false);
            self.pop_ref();
            self.ops.push("undo".into());
            self.trace.push(self.ops.last().unwrap().clone());
            if let Err(e) = catch(|| g.undo_move()) {
                self.vio("undo-move-panic", e);
                return;
            }
            let after = mo::snapshot(g);
            if after != before && self.om.rules {
                self.vio("undo-not-exact", format!("take back of {} does not restore the game: {}", rm.uci(), mo::diff_snap(&before, &after)));
            }
            self.ops.pop();
            self.ops.pop();
        } else if self.om.nulls && !r.in_check(r.side) {
            let before = mo::snapshot(g);
            self.edges += 1;
            bump(&mut self.c, "op_null");
            if r.ep.is_some() && g.en_passant_target.is_some() {
                bump(&mut self.c, "op_null_with_ep_target");
            }
            self.ops.push("null".into());
            self.trace.push(self.ops.last().unwrap().clone());
            if let Err(e) = catch(|| g.make_null_move()) {
                self.vio("null-move-panic", e);
                return;
            }
            self.push_ref(r.apply_null(), false);
            self.rec(g, left - 1, true);
            self.pop_ref();
            self.ops.push("undo-null".into());
            self.trace.push(self.ops.last().unwrap().clone());
            if let Err(e) = catch(|| g.undo_null_move()) {
                self.vio("undo-null-panic", e);
                return;
            }
            let after = mo::snapshot(g);
            if after != before && self.om.rules {
                self.vio("undo-null-not-exact", format!("take back of a null move does not restore the game: {}", mo::diff_snap(&before, &after)));
            }
            self.ops.pop();
            self.ops.pop();
        }
    }
}

/// Long reversible histories: a white rook cycles over the first `p` squares of rank 1 (a1, b1, .., back to a1) and a
/// black rook over the first `q` squares of rank 8, kings on h3 / h6 out of every line; the position recurs every
/// 2 * lcm(p, q) plies and nothing is ever captured, so halfmove clocks and repetition distances grow past 100 and
/// 256. With `siblings`, every other legal move is made and taken back before the scripted move of each ply.
pub fn rook_cycle_script(p: usize, q: usize, plies: usize, siblings: bool) -> (String, Vec<String>) {
    let seed = "r7/8/7k/8/8/7K/8/R7 w - - 0 1".to_string();
    let mut pos = Pos::from_fen(&seed).unwrap();
    let mut ops = vec![];
    let (mut wi, mut bi) = (0usize, 0usize);
    let name = |file: usize, rank: char| format!("{}{}", (b'a' + file as u8) as char, rank);
    for ply in 0..plies {
        let mv = if ply % 2 == 0 {
            let from = wi;
            wi = (wi + 1) % p;
            format!("{}{}", name(from, '1'), name(wi, '1'))
        } else {
            let from = bi;
            bi = (bi + 1) % q;
            format!("{}{}", name(from, '8'), name(bi, '8'))
        };
        let legal = pos.legal_moves();
        if siblings {
            for m in &legal {
                if m.uci() != mv {
                    ops.push(m.uci());
                    ops.push("undo".to_string());
                }
            }
        }
        let rm = legal.iter().find(|m| m.uci() == mv).unwrap_or_else(|| panic!("rook cycle script: {mv} is not legal in {}", pos.to_fen()));
        assert!(!rm.capture, "rook cycle script: {mv} captures");
        pos = pos.apply(rm);
        assert!(!pos.in_check(pos.side), "rook cycle script: check after {mv}");
        ops.push(mv);
    }
    (seed, ops)
}

/// One deeply nested line: the two rooks of `rook_cycle_script` cycle for `plies` operations with a null move in
/// place of every `null_every`-th move (so one side moves twice in a row and the phase of the two cycles shifts), no
/// sibling moves; then everything is taken back in reverse order. Returns (seed, operations incl. the take-backs).
pub fn deep_nest_script(p: usize, q: usize, plies: usize, null_every: usize) -> (String, Vec<String>) {
    let seed = "r7/8/7k/8/8/7K/8/R7 w - - 0 1".to_string();
    let mut pos = Pos::from_fen(&seed).unwrap();
    let mut ops = vec![];
    let mut back = vec![];
    let (mut wi, mut bi) = (0usize, 0usize);
    let name = |file: usize, rank: char| format!("{}{}", (b'a' + file as u8) as char, rank);
    for ply in 0..plies {
        if null_every > 0 && ply % null_every == null_every - 1 {
            pos = pos.apply_null();
            ops.push("null".to_string());
            back.push("undo-null".to_string());
            continue;
        }
        let mv = if pos.side == crate::refchess::Color::W {
            let from = wi;
            wi = (wi + 1) % p;
            format!("{}{}", name(from, '1'), name(wi, '1'))
        } else {
            let from = bi;
            bi = (bi + 1) % q;
            format!("{}{}", name(from, '8'), name(bi, '8'))
        };
        let legal = pos.legal_moves();
        let rm = legal.iter().find(|m| m.uci() == mv).unwrap_or_else(|| panic!("deep nest script: {mv} is not legal in {}", pos.to_fen()));
        assert!(!rm.capture, "deep nest script: {mv} captures");
        pos = pos.apply(rm);
        assert!(!pos.in_check(pos.side), "deep nest script: check after {mv}");
        ops.push(mv);
        back.push("undo".to_string());
    }
    back.reverse();
    ops.extend(back);
    (seed, ops)
}

/// Capture histories from far outside normal material: `n` white men of kind `fodder` stand on a2, a3, ..; a black rook
/// (or queen) starts on the square above them and eats its way down the file, one capture per move, while the white
/// king shuffles between h1 and g1; the black king sits on h8. Everything is captured in the end.
pub fn eat_script(n: usize, fodder: char, eater: char) -> (String, Vec<String>) {
    let mut rows: Vec<String> = vec!["7k".to_string(); 1];
    rows[0] = "7k".to_string();
    // ranks 8 .. 1
    let mut ranks: Vec<String> = vec![];
    for rank in (1..=8usize).rev() {
        let a = if rank >= 2 && rank <= n + 1 {
            Some(fodder)
        } else if rank == n + 2 {
            Some(eater)
        } else {
            None
        };
        let mut r = String::new();
        match (a, rank) {
            (Some(c), 8) => r = format!("{c}6k"),
            (Some(c), 1) => r = format!("{c}6K"),
            (Some(c), _) => r = format!("{c}7"),
            (None, 8) => r = "7k".to_string(),
            (None, 1) => r = "7K".to_string(),
            (None, _) => r = "8".to_string(),
        }
        ranks.push(r);
    }
    let seed = format!("{} b - - 0 1", ranks.join("/"));
    let mut ops = vec![];
    let mut wk_on_h = true;
    for k in 0..n {
        let from = n + 2 - k;
        ops.push(format!("a{}a{}", from, from - 1));
        ops.push(if wk_on_h { "h1g1".to_string() } else { "g1h1".to_string() });
        wk_on_h = !wk_on_h;
    }
    (seed, ops)
}

/// Execute one scripted operation list with all monitors of `om` after every operation. Returns the number of nodes.
pub fn run_script(ctx: &Ctx, om: OpMon, seed_fen: &str, ops: &[String], total: &std::sync::Mutex<Counts>) -> Result<u64, String> {
    let r = run_ops_list(ctx, om, seed_fen, ops, false, Some(total));
    r
}

/// Replay one stored operation list on a fresh game, checking after every operation.
pub fn replay_ops(ctx: &Ctx, om: OpMon, seed_fen: &str, ops: &[String]) -> Result<(), String> {
    run_ops_list(ctx, om, seed_fen, ops, true, None).map(|_| ())
}

fn run_ops_list(ctx: &Ctx, om: OpMon, seed_fen: &str, ops: &[String], print: bool, total: Option<&std::sync::Mutex<Counts>>) -> Result<u64, String> {
    let raw = seed_fen.starts_with("raw:");
    let seed = Pos::from_fen(seed_fen.trim_start_matches("raw:"))?;
    let mut g = if raw { Game::from_fen(seed_fen.trim_start_matches("raw:"))? } else { eng::to_game_with_ep(&seed, seed.ep) };
    let mut w = Walk { ctx, om, seed_fen: seed_fen.to_string(), ops: vec![], trace: vec![], refs: vec![], id_adj: vec![], id_legal: vec![], irreversible: vec![], c: Counts::new(), nodes: 0, edges: 0 };
    w.push_ref(seed.clone(), false);
    let mut snaps: Vec<Snapshot> = vec![];
    w.check_node(&g);
    for op in ops {
        w.ops.push(op.clone());
        // the stored case of a violation raised by this operation must contain the operation itself
        w.trace.push(op.clone());
        match op.as_str() {
            "undo" | "undo-null" => {
                let r = if op == "undo" { catch(|| g.undo_move()) } else { catch(|| g.undo_null_move()) };
                if let Err(e) = r {
                    // the subject panicked on a take-back the script is entitled to: a violation; the game object is
                    // in an undefined state afterwards, so the script ends here
                    w.vio(if op == "undo" { "undo-move-panic" } else { "undo-null-panic" }, e);
                    break;
                }
                w.pop_ref();
                let before = snaps.pop().ok_or("unbalanced undo")?;
                let after = mo::snapshot(&g);
                if after != before {
                    w.vio("undo-not-exact", mo::diff_snap(&before, &after));
                }
            }
            "null" => {
                snaps.push(mo::snapshot(&g));
                let r = w.refs.last().unwrap().clone();
                if let Err(e) = catch(|| g.make_null_move()) {
                    w.vio("null-move-panic", e);
                    break;
                }
                w.push_ref(r.apply_null(), false);
            }
            m => {
                snaps.push(mo::snapshot(&g));
                let r = w.refs.last().unwrap().clone();
                let rm = r.legal_moves().into_iter().find(|x| x.uci() == m).ok_or(format!("{m} not legal in reference"))?;
                let em = g.moves().iter().copied().find(|x| format!("{x:?}") == m).ok_or(format!("{m} not generated"))?;
                if let Err(e) = catch(|| g.make_move(em)) {
                    w.vio("make-move-panic", e);
                    break;
                }
                let (_, kind) = r.board[rm.from as usize].unwrap();
                w.push_ref(r.apply(&rm), rm.capture || kind == crate::refchess::Kind::P);
            }
        }
        w.check_node(&g);
        if matches!(op.as_str(), "undo" | "undo-null") {
            w.ops.pop();
            w.ops.pop();
        }
        if print {
            println!("  after {:<10} fen {}  key {:#018x}", op, g.to_fen(), g.zobrist.0);
        }
    }
    if let Some(t) = total {
        let mut t = t.lock().unwrap();
        for (k, v) in &w.c {
            *t.entry(*k).or_insert(0) += *v;
        }
    }
    Ok(w.nodes)
}
