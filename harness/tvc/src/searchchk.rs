//! C04 / C08 / C09 / C12 / C14(part 2): enumerated search sessions.

#![allow(dead_code)]

use crate::engine::search::PersistentState;
use crate::families;
use crate::refchess::{self as rc, sq, Color, Kind, Pos};
use crate::report::Run;
use crate::session::*;
use crate::util::{catch, mix, par_for, J};
use crate::verif_hooks::Clock;
use std::sync::atomic::{AtomicU64, Ordering};

#[derive(Clone, Debug)]
pub enum Step {
    Search(GameSpec, Spec, Env),
    NewGame,
    SetHash(usize),
}

#[derive(Clone, Debug)]
pub struct Session {
    pub hash_mb: usize,
    pub start_gen: u8,
    pub steps: Vec<Step>,
}

impl Session {
    pub fn json(&self, upto: usize) -> J {
        J::obj(vec![
            ("kind", J::s("session")),
            ("hash_mb", J::i(self.hash_mb as i64)),
            ("start_generation", J::i(self.start_gen)),
            (
                "steps",
                J::Arr(
                    self.steps[..=upto.min(self.steps.len() - 1)]
                        .iter()
                        .map(|s| match s {
                            Step::Search(g, sp, e) => J::obj(vec![("op", J::s("search")), ("game", g.json()), ("spec", spec_json(sp)), ("env", env_json(e))]),
                            Step::NewGame => J::obj(vec![("op", J::s("ucinewgame"))]),
                            Step::SetHash(mb) => J::obj(vec![("op", J::s("sethash")), ("mb", J::i(*mb as i64))]),
                        })
                        .collect(),
                ),
            ),
        ])
    }
    pub fn from_json(j: &J) -> Session {
        let steps = j
            .get("steps")
            .and_then(|x| x.as_arr())
            .map(|a| {
                a.iter()
                    .filter_map(|s| match s.get("op").and_then(|x| x.as_str()) {
                        Some("search") => Some(Step::Search(GameSpec::from_json(s.get("game")?)?, spec_from_json(s.get("spec")?), env_from_json(s.get("env")?))),
                        Some("ucinewgame") => Some(Step::NewGame),
                        Some("sethash") => Some(Step::SetHash(s.get("mb")?.as_i64()? as usize)),
                        _ => None,
                    })
                    .collect()
            })
            .unwrap_or_default();
        Session { hash_mb: j.get("hash_mb").and_then(|x| x.as_i64()).unwrap_or(1) as usize, start_gen: j.get("start_generation").and_then(|x| x.as_i64()).unwrap_or(0) as u8, steps }
    }
    pub fn key(&self, upto: usize) -> String {
        let mut s = format!("hash {} gen {}", self.hash_mb, self.start_gen);
        for st in &self.steps[..=upto.min(self.steps.len() - 1)] {
            match st {
                Step::Search(g, sp, e) => s.push_str(&format!(" | search [{}] {} {}", g.key(), sp.text(), e.text())),
                Step::NewGame => s.push_str(" | ucinewgame"),
                Step::SetHash(mb) => s.push_str(&format!(" | sethash {mb}")),
            }
        }
        s
    }
}

/// What the monitors of one property look at.
#[derive(Clone, Copy, PartialEq, Eq)]
pub enum Focus {
    C04,
    C08,
    C09,
}

pub struct Stats {
    pub searches: AtomicU64,
    pub infos: AtomicU64,
    pub mates: AtomicU64,
    pub nodes: AtomicU64,
    pub polls: AtomicU64,
}

impl Stats {
    pub fn new() -> Stats {
        Stats { searches: AtomicU64::new(0), infos: AtomicU64::new(0), mates: AtomicU64::new(0), nodes: AtomicU64::new(0), polls: AtomicU64::new(0) }
    }
}

/// Execute a session; apply the monitors of `focus` to every search. Returns the outcomes' traces
/// (for determinism comparisons): per search the best move text and the info lines.
pub fn exec_session(run: &Run, focus: Focus, sess: &Session, stats: &Stats, budget: u64) -> Vec<(String, Vec<InfoRec>)> {
    let mut traces = vec![];
    let mut ps = match catch(|| PersistentState::new(sess.hash_mb)) {
        Ok(p) => p,
        Err(e) => {
            run.violation("search-state-panic", format!("search-state-panic|hash {}", sess.hash_mb), sess.json(0), format!("PersistentState::new({}) panicked: {e}", sess.hash_mb));
            return traces;
        }
    };
    ps.tt.generation = sess.start_gen;
    for (i, step) in sess.steps.iter().enumerate() {
        match step {
            Step::NewGame => {
                if let Err(e) = catch(|| ps.reset()) {
                    run.violation("reset-panic", format!("reset-panic|{}", sess.key(i)), sess.json(i), e);
                    return traces;
                }
            }
            Step::SetHash(mb) => {
                if let Err(e) = catch(|| ps.tt.resize(*mb)) {
                    run.violation("resize-panic", format!("resize-panic|{}", sess.key(i)), sess.json(i), e);
                    return traces;
                }
            }
            Step::Search(gs, spec, env) => {
                let (g, root) = match gs.build() {
                    Ok(x) => x,
                    Err(e) => {
                        run.machinery_error(format!("cannot build {}: {e}", gs.key()));
                        return traces;
                    }
                };
                let before = crate::monitors::snapshot(&g);
                crate::util::set_current_case(sess.json(i).dump().replace('\n', " "), sess.key(i));
                let o = run_search(&mut ps, &g, spec, env, budget);
                stats.searches.fetch_add(1, Ordering::Relaxed);
                stats.infos.fetch_add(o.infos.len() as u64, Ordering::Relaxed);
                stats.nodes.fetch_add(o.nodes_max, Ordering::Relaxed);
                stats.polls.fetch_add(o.polls, Ordering::Relaxed);
                stats.mates.fetch_add(o.infos.iter().filter(|x| x.score.0).count() as u64, Ordering::Relaxed);
                let legal = best_is_legal(&root, &o.best);
                if focus == Focus::C04 || focus == Focus::C09 {
                    if let Err(e) = &legal {
                        let kind = if e.contains("node budget") { "search-does-not-terminate" } else if e.starts_with("search panicked") { "search-panic" } else { "search-illegal-move" };
                        run.violation(kind, format!("{kind}|{}", sess.key(i)), sess.json(i), format!("{} {} {}: {e}", gs.key(), spec.text(), env.text()));
                    }
                    if crate::monitors::snapshot(&g) != before {
                        run.violation("search-modifies-input", format!("search-modifies-input|{}", sess.key(i)), sess.json(i), "the position given to the search was modified".into());
                    }
                }
                if focus == Focus::C08 || focus == Focus::C09 {
                    for (kind, detail) in check_infos(&root, spec, &o.infos, &o.pvs) {
                        run.violation(&kind, format!("{kind}|{}", sess.key(i)), sess.json(i), format!("{} {}: {detail}", gs.key(), spec.text()));
                    }
                }
                if focus == Focus::C09 {
                    if let Some(k) = o.first_true_poll {
                        if o.polls_after_true > 0 || o.calls_after_true > 0 {
                            run.violation(
                                "search-continues-after-stop",
                                format!("search-continues-after-stop|{}", sess.key(i)),
                                sess.json(i),
                                format!("{} {}: stop first observed at poll {k} ({} nodes); afterwards {} further node visits and {} further polls (nodes at return {})", gs.key(), spec.text(), o.nodes_at_first_true.unwrap_or(0), o.calls_after_true, o.polls_after_true, o.nodes_max),
                            );
                        }
                    }
                }
                if legal.is_err() && o.best.is_err() {
                    // after a panic the persistent state may be inconsistent: stop this session
                    traces.push(("panic".into(), o.infos));
                    return traces;
                }
                if let (Ok(m), Some(last)) = (&o.best, o.infos.last()) {
                    run.distinct_outcome(format!("{m:?} {}{} d{} n{}", if last.score.0 { "mate" } else { "cp" }, last.score.1, last.depth, o.infos.len()));
                }
                traces.push((o.best.as_ref().map(|m| format!("{m:?}")).unwrap_or_default(), o.infos));
            }
        }
    }
    traces
}

// ------------------------------------------------------------------------------------------------ families

pub const TRIANGLE: [(i32, i32); 10] = [(0, 0), (1, 0), (2, 0), (3, 0), (1, 1), (2, 1), (3, 1), (2, 2), (3, 2), (3, 3)];

/// Exhaustive 3-man endgame sessions: white king fixed, one session per black-king square; inside a
/// session every square of the third man and both sides to move, searched one after the other on the
/// same persistent state.
pub fn endgame_sessions(man: (Color, Kind), wk: u8, depth: u8, hash_mb: usize) -> Vec<Session> {
    let mut out = vec![];
    for bk in 0..64u8 {
        let mut steps = vec![];
        let mut base = Pos::empty();
        base.board[wk as usize] = Some((Color::W, Kind::K));
        if bk == wk || ((rc::file_of(bk) - rc::file_of(wk)).abs() <= 1 && (rc::rank_of(bk) - rc::rank_of(wk)).abs() <= 1) {
            continue;
        }
        base.board[bk as usize] = Some((Color::B, Kind::K));
        for s in 0..64u8 {
            if base.board[s as usize].is_some() || (man.1 == Kind::P && (rc::rank_of(s) == 0 || rc::rank_of(s) == 7)) {
                continue;
            }
            for side in [Color::W, Color::B] {
                let mut p = base.clone();
                p.board[s as usize] = Some(man);
                p.side = side;
                if !p.is_legal_position() || p.legal_moves().is_empty() {
                    continue;
                }
                steps.push(Step::Search(GameSpec::fen(&p.to_fen()), Spec::depth(depth), Env::Default));
            }
        }
        if !steps.is_empty() {
            out.push(Session { hash_mb, start_gen: [0u8, 250, 251, 252, 253, 254, 255][(bk % 7) as usize], steps });
        }
    }
    out
}

pub fn tactical_roots() -> Vec<GameSpec> {
    let mut v: Vec<GameSpec> = families::seeds().iter().filter(|s| !Pos::from_fen(s.fen).unwrap().legal_moves().is_empty()).map(|s| GameSpec::fen(s.fen)).collect();
    for f in [
        // roots that are themselves drawn by material or by the clock but still have legal moves
        "8/8/8/4k3/8/8/8/4KN2 w - - 0 1",
        "8/8/8/4k3/8/8/8/4KB2 b - - 0 1",
        "8/8/8/3k4/8/3K4/8/8 w - - 0 1",
        "8/8/3k4/8/3NN3/3K4/8/8 w - - 0 1",
        "r3k2r/8/8/8/8/8/8/R3K2R w KQkq - 100 80",
        "4k3/8/8/8/8/8/3R4/4K3 b - - 120 90",
        // mates in 1..4 and being mated
        "6k1/5ppp/8/8/8/8/8/4R1K1 w - - 0 1",
        "k7/8/1K6/8/8/8/8/7R w - - 0 1",
        "7k/8/5K2/6Q1/8/8/8/8 b - - 0 1",
        "r1bqkb1r/pppp1ppp/2n2n2/4p2Q/2B1P3/8/PPPP1PPP/RNB1K1NR w KQkq - 4 4",
        "8/8/8/8/8/5k2/7q/7K w - - 0 1",
        "3qr1k1/8/8/8/8/8/8/4R1K1 w - - 99 120",
        "6k1/1R3p2/6p1/2Bp3p/3P2q1/P7/1P2rQ1K/5R2 b - - 4 44",
        // mates whose last move is a capture (the mating move is found inside quiescence one iteration early)
        "3r2k1/5ppp/8/8/8/8/4R3/4R1K1 w - - 0 1",
        "4R1k1/5ppp/8/8/8/8/4r3/3r2K1 b - - 0 1",
        "6k1/5ppp/4r3/8/8/8/1Q6/1R4K1 w - - 0 1",
        "r5k1/5ppp/8/8/8/8/5PPP/1R1R2K1 w - - 0 1",
        "5rk1/5ppp/8/8/8/2B5/1Q6/6K1 w - - 0 1",
        "k7/pp6/8/8/8/8/8/K2R3R w - - 0 1",
        "7k/6pp/8/8/8/8/r7/1r4K1 b - - 0 1",
        // the only mate in one is an under-promotion (found with `tvc find-underpromo`); second one colour-mirrored
        "K7/1P6/k7/8/1Q6/8/8/8 w - - 0 1",
        "8/8/8/8/8/5K1k/1q4p1/8 b - - 0 1",
        "8/2P5/1K1k4/5Q2/8/8/8/8 w - - 0 1",
        // under-promotions in the line
        "8/5P1k/5K2/8/8/8/8/8 w - - 0 1",
        "8/8/8/8/8/2k5/2p5/K7 b - - 0 1",
        "6k1/4P3/6K1/8/8/8/8/8 w - - 0 1",
        // forced replies without any quiet move: the only legal move is a losing capture (at the root, and one move
        // below the root after a smothering check), or a winning one; each with its colour-mirrored twin
        "6k1/8/8/2b5/8/8/4QnPP/6RK w - - 0 1",
        "6rk/4qNpp/8/8/2B5/8/8/6K1 b - - 0 1",
        "6rk/4q1pp/8/4N3/2B5/8/8/6K1 w - - 0 1",
        "6k1/8/8/2b5/4n3/8/4Q1PP/6RK b - - 0 1",
        "7k/8/8/8/8/8/6Pq/6RK w - - 0 1",
        "6rk/6pQ/8/8/8/8/8/7K b - - 0 1",
        // very many legal moves (late-move-reduction table bounds)
        "R6R/3Q4/1Q4Q1/4Q3/2Q4Q/Q4Q2/pp1Q4/kBNN1KB1 w - - 0 1",
        "3Q4/1Q4Q1/4Q3/2Q4R/Q4Q2/3Q4/1Q4Rp/1K1BBNNk w - - 0 1",
        "q2k2q1/2nqn2b/1n1P1n1b/2rnr2Q/1NQ1QN1Q/3Q3B/2RQR2B/Q2K2Q1 w - - 0 1",
    ] {
        v.push(GameSpec::fen(f));
    }
    // a game with history (repetition possible in the tree)
    v.push(GameSpec { fen: "rnbqkbnr/pppppppp/8/8/8/8/PPPPPPPP/RNBQKBNR w KQkq - 0 1".into(), moves: vec!["g1f3".into(), "g8f6".into(), "f3g1".into(), "f6g8".into(), "g1f3".into(), "g8f6".into(), "f3g1".into()] });
    v.push(GameSpec { fen: "8/8/8/4k3/8/8/8/R3K3 w Q - 96 1".into(), moves: vec!["a1a2".into(), "e5e6".into(), "a2a1".into()] });
    // deep in a long game: 120 and 200 plies of a deterministic game (k-th legal move policy) as history
    for (start, plies) in [("rnbqkbnr/pppppppp/8/8/8/8/PPPPPPPP/RNBQKBNR w KQkq - 0 1", 120usize), ("r3k2r/p1ppqpb1/bn2pnp1/3PN3/1p2P3/2N2Q1p/PPPBBPPP/R3K2R w KQkq - 0 1", 200), ("rnbqkbnr/pppppppp/8/8/8/8/PPPPPPPP/RNBQKBNR w KQkq - 0 3000", 60)] {
        let mut p = Pos::from_fen(start).unwrap();
        let mut moves = vec![];
        for ply in 0..plies {
            let mut l = p.legal_moves();
            l.sort();
            // avoid ending the game: prefer a move after which the opponent still has a move
            let pick = (0..l.len()).map(|k| l[(l.len() / 2 + ply + k) % l.len()]).find(|m| !p.apply(m).legal_moves().is_empty());
            let Some(m) = pick else { break };
            p = p.apply(&m);
            moves.push(m.uci());
        }
        v.push(GameSpec { fen: start.into(), moves });
    }
    // the properties quantify over legal, non-terminal positions
    v.retain(|g| match g.build() {
        Ok((_, p)) => p.is_legal_position() && !p.legal_moves().is_empty(),
        Err(_) => false,
    });
    v
}

/// Sessions over the tactical roots: per root and hash size, depths 1..=D ascending then descending on
/// one persistent state.
pub fn root_sessions(maxdepth: u8, hashes: &[usize]) -> Vec<Session> {
    let mut out = vec![];
    for (ri, r) in tactical_roots().into_iter().enumerate() {
        for (hi, h) in hashes.iter().enumerate() {
            let mut steps = vec![];
            // a depth limit of 0 is a valid request: no iteration may be reported, a legal move must still come back
            for d in 0..=maxdepth {
                steps.push(Step::Search(r.clone(), Spec::depth(d), Env::Default));
            }
            for d in (1..maxdepth).rev() {
                steps.push(Step::Search(r.clone(), Spec::depth(d), Env::Default));
            }
            out.push(Session { hash_mb: *h, start_gen: [0u8, 254, 255, 3][(ri + hi) % 4], steps });
        }
    }
    out
}

/// Sessions of length <= 3 over pairs of different roots sharing one table (prior search of ANOTHER position).
pub fn cross_sessions(depth: u8) -> Vec<Session> {
    let roots: Vec<GameSpec> = ["8/6k1/8/2R5/8/1K6/3Q1p2/8 w - - 1 25", "k7/8/1K6/8/8/8/8/7R w - - 0 1", "8/8/8/4k3/8/8/4P3/4K3 w - - 0 1", "r3k2r/p1ppqpb1/bn2pnp1/3PN3/1p2P3/2N2Q1p/PPPBBPPP/R3K2R w KQkq - 0 1", "8/8/8/4k3/8/8/8/3QK3 w - - 0 1", "7k/8/5K2/6Q1/8/8/8/8 b - - 0 1"]
        .iter()
        .map(|f| GameSpec::fen(f))
        .collect();
    let mut out = vec![];
    for a in &roots {
        for b in &roots {
            out.push(Session { hash_mb: 1, start_gen: 0, steps: vec![Step::Search(a.clone(), Spec::depth(depth), Env::Default), Step::Search(b.clone(), Spec::depth(depth), Env::Default), Step::Search(a.clone(), Spec::depth(depth - 1), Env::Default)] });
            out.push(Session { hash_mb: 1, start_gen: 255, steps: vec![Step::Search(a.clone(), Spec::depth(depth), Env::Default), Step::NewGame, Step::Search(b.clone(), Spec::depth(depth), Env::Default)] });
        }
    }
    out
}

/// En-passant twins on one table: the same diagram with and without the right to capture en passant (reached by a
/// double step, written in the FEN, or absent), searched one after the other. A key that does not tell the twins
/// apart hands the capture of one to the other, where it is not a legal move.
pub fn ep_twin_sessions(depth: u8) -> Vec<Session> {
    let mut out = vec![];
    for (before, push, with_ep, without) in [
        ("6k1/p2p1pp1/7p/4P3/2R5/7P/Pr3PP1/6K1 b - - 0 1", "d7d5", "6k1/p4pp1/7p/3pP3/2R5/7P/Pr3PP1/6K1 w - d6 0 2", "6k1/p4pp1/7p/3pP3/2R5/7P/Pr3PP1/6K1 w - - 0 2"),
        ("6k1/p2p1pp1/7p/4P3/2Q5/7P/Pr3PP1/6K1 b - - 0 1", "d7d5", "6k1/p4pp1/7p/3pP3/2Q5/7P/Pr3PP1/6K1 w - d6 0 2", "6k1/p4pp1/7p/3pP3/2Q5/7P/Pr3PP1/6K1 w - - 0 2"),
        ("6k1/pR3pp1/7p/2r5/4p3/7P/P2P1PP1/6K1 w - - 0 1", "d2d4", "6k1/pR3pp1/7p/2r5/3Pp3/7P/P4PP1/6K1 b - d3 0 1", "6k1/pR3pp1/7p/2r5/3Pp3/7P/P4PP1/6K1 b - - 0 1"),
    ] {
        let firsts = [GameSpec::fen(before), GameSpec { fen: before.to_string(), moves: vec![push.to_string()] }, GameSpec::fen(with_ep)];
        for a in firsts {
            let mut steps = vec![Step::Search(a.clone(), Spec::depth(depth), Env::Default)];
            for d in 1..=4u8 {
                steps.push(Step::Search(GameSpec::fen(without), Spec::depth(d), Env::Default));
            }
            out.push(Session { hash_mb: 1, start_gen: 0, steps });
            // and the other way round
            out.push(Session { hash_mb: 1, start_gen: 0, steps: vec![Step::Search(GameSpec::fen(without), Spec::depth(depth), Env::Default), Step::Search(a.clone(), Spec::depth(3), Env::Default), Step::Search(GameSpec::fen(without), Spec::depth(2), Env::Default)] });
        }
    }
    out
}

/// Searches to the maximum depth on tiny trees (the iteration counter and the depth arithmetic at their limits).
pub fn max_depth_sessions() -> Vec<Session> {
    let roots = [
        "8/8/8/3k4/8/3K4/8/8 w - - 0 1",       // bare kings
        "8/8/8/8/4k3/8/8/r3K3 w - - 99 80",    // root in check, everything below is a fifty-move draw
        "8/8/8/8/4K3/8/8/R3k3 b - - 99 80",    // same, colours swapped
        "8/8/8/3k4/8/3KN3/8/8 b - - 0 1",      // king and minor v king
        "7k/5K2/8/6Q1/8/8/8/8 b - - 100 90",   // clock already at 100, one legal move
        "4k3/8/8/p1p1p1p1/P1P1P1P1/8/8/4K3 w - - 0 1", // blocked pawn chains: kings only shuffle, every iteration completes
    ];
    // deep iterations on small but non-trivial trees (quiet cut-offs with a large remaining depth)
    let deep = [("8/8/8/4k3/8/8/4P3/4K3 w - - 0 1", 20u8), ("8/5p2/5k2/8/5K2/5P2/8/8 w - - 0 1", 22), ("8/8/p7/P7/1k6/8/1K6/8 b - - 0 1", 22)];
    let mut out = vec![];
    for r in roots {
        let g = GameSpec::fen(r);
        for d in [254u8, 255] {
            out.push(Session { hash_mb: 1, start_gen: 0, steps: vec![Step::Search(g.clone(), Spec::depth(d), Env::Default)] });
        }
        // no depth limit at all: the search ends by itself at the maximum depth
        out.push(Session { hash_mb: 1, start_gen: 0, steps: vec![Step::Search(g.clone(), Spec { depth: None, tc: Tc::Infinite, overhead_ms: 0 }, Env::Default)] });
    }
    for (r, d) in deep {
        out.push(Session { hash_mb: 1, start_gen: 0, steps: vec![Step::Search(GameSpec::fen(r), Spec::depth(d), Env::Default)] });
    }
    out
}

/// Time limits with no depth limit under a virtual clock that advances with the nodes: the search must end by
/// itself (a limit of zero and a missing clock are limits too).
pub fn timed_no_depth_sessions() -> Vec<Session> {
    let roots = ["rnbqkbnr/pppppppp/8/8/8/8/PPPPPPPP/RNBQKBNR w KQkq - 0 1", "r3k2r/p1ppqpb1/bn2pnp1/3PN3/1p2P3/2N2Q1p/PPPBBPPP/R3K2R b KQkq - 0 1", "8/8/8/4k3/8/8/4P3/4K3 w - - 0 1"];
    let tcs = [
        Tc::MoveTime(0),
        Tc::MoveTime(1),
        Tc::MoveTime(30),
        Tc::Clocks(Some(0), Some(0), None, None, None),
        Tc::Clocks(Some(1), Some(1), Some(0), Some(0), Some(1)),
        // only the OTHER side's clock is given (the mover's is missing)
        Tc::Clocks(Some(60_000), None, Some(1000), None, None),
        Tc::Clocks(None, Some(60_000), None, Some(1000), None),
        Tc::Clocks(Some(300), Some(300), Some(10), Some(10), Some(4_294_967_295)),
    ];
    let mut out = vec![];
    for r in roots {
        for tc in &tcs {
            let spec = Spec { depth: None, tc: tc.clone(), overhead_ms: 0 };
            out.push(Session { hash_mb: 1, start_gen: 0, steps: vec![Step::Search(GameSpec::fen(r), spec, Env::Clock(Clock::PerNode(1000)))] });
        }
    }
    out
}

/// 300 consecutive searches on one state (generation counter).
pub fn generation_session() -> Session {
    let g = GameSpec::fen("8/8/8/4k3/8/8/4P3/4K3 w - - 0 1");
    Session { hash_mb: 1, start_gen: 0, steps: (0..300).map(|i| Step::Search(g.clone(), Spec::depth(1 + (i % 3) as u8), Env::Default)).collect() }
}

/// Clock-limited searches with every clock-read index as the expiry point.
pub fn clock_expiry_sessions(run: &Run, stats: &Stats, quick: bool) -> Vec<Session> {
    // the last two: quiescence explosions, where the limit can expire before the first root move of iteration 1 is scored
    let roots = ["8/6k1/8/2R5/8/1K6/3Q1p2/8 w - - 1 25", "rnbqkbnr/pppppppp/8/8/8/8/PPPPPPPP/RNBQKBNR w KQkq - 0 1", "r3k2r/p1ppqpb1/bn2pnp1/3PN3/1p2P3/2N2Q1p/PPPBBPPP/R3K2R w KQkq - 0 1", "7k/8/5K2/6Q1/8/8/8/8 b - - 0 1", "q2k2q1/2nqn2b/1n1P1n1b/2rnr2Q/1NQ1QN1Q/3Q3B/2RQR2B/Q2K2Q1 w - - 0 1", "R6R/3Q4/1Q4Q1/4Q3/2Q4Q/Q4Q2/pp1Q4/kBNN1KB1 w - - 0 1"];
    let tcs = [Tc::MoveTime(100), Tc::MoveTime(0), Tc::Clocks(Some(1000), Some(1000), None, None, None), Tc::Clocks(Some(60_000), Some(60_000), Some(1000), Some(1000), Some(20))];
    let maxdepth = if quick { 5 } else { 7 };
    let mut out = vec![];
    for r in roots {
        for tc in &tcs {
            // the explosion roots are there for an expiry inside iteration 1: two iterations are enough
            let explosive = r.starts_with("q2k2q1") || r.starts_with("R6R");
            let spec = Spec { depth: Some(if explosive { 2 } else { maxdepth }), tc: tc.clone(), overhead_ms: 10 };
            // unperturbed (frozen clock): count the clock reads
            let g = GameSpec::fen(r);
            let (game, _) = g.build().unwrap();
            let mut ps = PersistentState::new(1);
            let o = run_search(&mut ps, &game, &spec, &Env::Clock(Clock::Frozen), DEFAULT_NODE_BUDGET);
            stats.searches.fetch_add(1, Ordering::Relaxed);
            let reads = o.clock_reads;
            run.count("clock_reads_of_unperturbed_searches", reads);
            for rd in 1..=reads + 1 {
                out.push(Session { hash_mb: 1, start_gen: 0, steps: vec![Step::Search(g.clone(), spec.clone(), Env::Clock(Clock::ExpireAtRead(rd))), Step::Search(g.clone(), Spec::depth(3), Env::Default)] });
            }
        }
    }
    out
}

pub fn run_sessions(run: &Run, focus: Focus, sessions: &[Session], stats: &Stats) {
    par_for(sessions.len(), |i| {
        exec_session(run, focus, &sessions[i], stats, DEFAULT_NODE_BUDGET);
    });
}

pub fn c04_c08(run: &Run, focus: Focus) -> (u64, u64) {
    let quick = run.quick();
    let stats = Stats::new();
    let depth = match (focus, quick) {
        (Focus::C08, true) => 7,
        (Focus::C08, false) => 9,
        (_, true) => 6,
        (_, false) => 8,
    };
    let mut total_sessions = 0u64;
    // endgames
    let wks: Vec<u8> = if quick { (0..2).map(|k| { let (f, r) = TRIANGLE[((mix(run.seed) + k * 3) % 10) as usize]; sq(f, r) }).collect() } else { TRIANGLE.iter().map(|(f, r)| sq(*f, *r)).collect() };
    for man in [(Color::W, Kind::Q), (Color::W, Kind::R), (Color::W, Kind::P), (Color::B, Kind::Q)] {
        let mut sessions = vec![];
        for wk in &wks {
            sessions.extend(endgame_sessions(man, *wk, depth, 1));
        }
        let before = stats.searches.load(Ordering::Relaxed);
        run_sessions(run, focus, &sessions, &stats);
        total_sessions += sessions.len() as u64;
        run.family(&format!("ENDGAME K+{:?}{:?} v K", man.0, man.1), &format!("white king on {:?}, every black-king square (one session each, start generation in {{0,250..255}}), every square of the third man, both sides, depth {depth}, 1 MB", wks.iter().map(|w| rc::sq_name(*w)).collect::<Vec<_>>()), sessions.len() as u64, stats.searches.load(Ordering::Relaxed) - before, true, "searches run one after the other on the session's persistent state");
    }
    // tactical roots
    let hashes: Vec<usize> = if quick { vec![crate::checks::advertised_hash_min(), 1, 16] } else { vec![crate::checks::advertised_hash_min(), 1, 2, 16, 64] };
    let sessions = root_sessions(if quick { 6 } else { 8 }, &hashes);
    let before = stats.searches.load(Ordering::Relaxed);
    run_sessions(run, focus, &sessions, &stats);
    total_sessions += sessions.len() as u64;
    run.family("ROOTS", &format!("{} roots (seeds, drawn roots, mates, 100+ move positions, games with history) x hash {:?} MB x depth 1..=D ascending then descending on one state", tactical_roots().len(), hashes), sessions.len() as u64, stats.searches.load(Ordering::Relaxed) - before, true, "");
    let sessions = cross_sessions(if quick { 6 } else { 7 });
    let before = stats.searches.load(Ordering::Relaxed);
    run_sessions(run, focus, &sessions, &stats);
    total_sessions += sessions.len() as u64;
    run.family("CROSS", "ordered pairs of 6 roots sharing one table (a, b, a) and (a, ucinewgame, b) from generation 255", sessions.len() as u64, stats.searches.load(Ordering::Relaxed) - before, true, "");
    if focus == Focus::C08 {
        // what a search reports before it is stopped must be true as well: mate roots, every stop instant
        let roots = ["2rr3k/pp3pp1/1nnqbN1p/3pN3/2pP4/2P3Q1/PPB4P/R4RK1 w - - 0 1", "1k1r4/pp1b1R2/3q2pp/4p3/2B5/4Q3/PPP2B2/2K5 b - - 0 1", "8/6k1/8/2R5/8/1K6/3Q1p2/8 w - - 1 25", "r1b1kb1r/pppp1ppp/5q2/4n3/3KP3/2N3PN/PPP4P/R1BQ1B1R b kq - 0 1", "r1bq2rk/pp3pbp/2p1p1pQ/7P/3P4/2PB1N2/PP3PPR/2KR4 w - - 0 1", "5k2/6pp/p1qN4/1p1p4/3P4/2PKP2Q/PP3r2/3R4 b - - 0 1", "4k1r1/2p3r1/1pR1p3/3pP2p/3P2qP/P4N2/1PQ4P/5R1K b - - 0 1"];
        let mut sessions = vec![];
        let mut polls = 0u64;
        for f in roots {
            let g = GameSpec::fen(f);
            let spec = Spec::depth(if quick { 8 } else { 10 });
            let (game, _) = g.build().unwrap();
            let mut ps = PersistentState::new(1);
            let o = run_search(&mut ps, &game, &spec, &Env::Default, DEFAULT_NODE_BUDGET);
            polls += o.polls;
            for k in 1..=o.polls {
                sessions.push(Session { hash_mb: 1, start_gen: 0, steps: vec![Step::Search(g.clone(), spec.clone(), Env::StopAtPoll(k))] });
                // time running out instead of a stop request (virtual clock, 1 microsecond per node)
                sessions.push(Session { hash_mb: 1, start_gen: 0, steps: vec![Step::Search(g.clone(), Spec { depth: None, tc: Tc::MoveTime(k * 10), overhead_ms: 0 }, Env::Clock(Clock::PerNode(1000)))] });
            }
        }
        let before = stats.searches.load(Ordering::Relaxed);
        run_sessions(run, focus, &sessions, &stats);
        total_sessions += sessions.len() as u64;
        run.family("STOPPED-MATE-ROOTS", &format!("7 roots with forced mates: for every k in 1..=P (P = polls of the unstopped search, {polls} in total) the stop flag reads true from poll k on, and the move time runs out after k x 10 ms of a virtual clock; every line reported before the search ends is judged"), sessions.len() as u64, stats.searches.load(Ordering::Relaxed) - before, true, "");
    }
    {
        let s = ep_twin_sessions(if quick { 6 } else { 8 });
        let before = stats.searches.load(Ordering::Relaxed);
        run_sessions(run, focus, &s, &stats);
        total_sessions += s.len() as u64;
        run.family("EP-TWINS", "3 diagrams x {before the double step, after it (played), after it (FEN with the square)} followed on the same table by the twin without the en-passant right at depths 1..4, and the reverse order", s.len() as u64, stats.searches.load(Ordering::Relaxed) - before, true, "");
    }
    {
        let s = max_depth_sessions();
        let before = stats.searches.load(Ordering::Relaxed);
        run_sessions(run, focus, &s, &stats);
        total_sessions += s.len() as u64;
        run.family("MAX-DEPTH", "6 tiny-tree roots (bare kings, root in check with the clock at 99, king+minor, clock at 100, blocked pawn chains) x depth limit 254, 255 and none; 3 pawn endings to depth 20-22", s.len() as u64, stats.searches.load(Ordering::Relaxed) - before, true, "");
    }
    if focus == Focus::C04 {
        let s = vec![generation_session()];
        let before = stats.searches.load(Ordering::Relaxed);
        run_sessions(run, focus, &s, &stats);
        total_sessions += 1;
        run.family("GENERATIONS", "300 consecutive searches on one persistent state", 1, stats.searches.load(Ordering::Relaxed) - before, true, "");
        let s = timed_no_depth_sessions();
        let before = stats.searches.load(Ordering::Relaxed);
        par_for(s.len(), |i| {
            // a search that honours its limit ends within a few polls: 3 M nodes of virtual time is far beyond any of them
            exec_session(run, focus, &s[i], &stats, 3_000_000);
        });
        total_sessions += s.len() as u64;
        run.family("TIME-LIMIT-NO-DEPTH", "3 roots x {movetime 0, 1, 30; clocks 0/0; clocks 1/1 movestogo 1; only the other side's clock; movestogo 4294967295}, no depth limit, virtual clock of 1 microsecond per node: the search must end by itself (node budget 3 M)", s.len() as u64, stats.searches.load(Ordering::Relaxed) - before, true, "");
        let sessions = clock_expiry_sessions(run, &stats, quick);
        let before = stats.searches.load(Ordering::Relaxed);
        run_sessions(run, focus, &sessions, &stats);
        total_sessions += sessions.len() as u64;
        run.family("CLOCK-EXPIRY", "6 roots (two quiescence explosions) x {movetime 100, movetime 0, clocks 1000+0, clocks 60000+1000/20} : the clock reads 'expired' from the r-th read on, for every r of the unperturbed search; followed by a depth-3 search on the same state", sessions.len() as u64, stats.searches.load(Ordering::Relaxed) - before, true, "virtual clock");
    }
    run.count("searches", stats.searches.load(Ordering::Relaxed));
    run.count("info_lines", stats.infos.load(Ordering::Relaxed));
    run.count("mate_announcements", stats.mates.load(Ordering::Relaxed));
    run.count("nodes", stats.nodes.load(Ordering::Relaxed));
    (total_sessions, stats.searches.load(Ordering::Relaxed))
}

// ------------------------------------------------------------------------------------------------ C09

pub fn c09(run: &Run) -> (u64, u64) {
    let quick = run.quick();
    let stats = Stats::new();
    let mut roots: Vec<(GameSpec, Spec)> = vec![];
    let mid = ["rnbqkbnr/pppppppp/8/8/8/8/PPPPPPPP/RNBQKBNR w KQkq - 0 1", "r3k2r/p1ppqpb1/bn2pnp1/3PN3/1p2P3/2N2Q1p/PPPBBPPP/R3K2R w KQkq - 0 1", "r4rk1/1pp1qppp/p1np1n2/2b1p1B1/2B1P1b1/P1NP1N2/1PP1QPPP/R4RK1 w - - 0 10", "8/2p5/3p4/KP5r/1R3p1k/8/4P1P1/8 w - - 0 1", "rnbq1k1r/pp1Pbppp/2p5/8/2B5/8/PPP1NnPP/RNBQK2R w KQ - 1 8"];
    for (i, f) in mid.iter().enumerate() {
        roots.push((GameSpec::fen(f), Spec::depth(if quick { 6 + (i % 2) as u8 } else { 8 })));
    }
    // deep quiescence: the first in-tree poll falls inside iteration 1-3
    for f in ["q2k2q1/2nqn2b/1n1P1n1b/2rnr2Q/1NQ1QN1Q/3Q3B/2RQR2B/Q2K2Q1 w - - 0 1", "R6R/3Q4/1Q4Q1/4Q3/2Q4Q/Q4Q2/pp1Q4/kBNN1KB1 w - - 0 1", "r1b1k2r/ppppnppp/2n2q2/2b5/3NP3/2P1B3/PP3PPP/RN1QKB1R w KQkq - 0 1"] {
        roots.push((GameSpec::fen(f), Spec::depth(if quick { 4 } else { 6 })));
    }
    // mate jumps (aspiration re-search) and endgames
    for f in ["8/6k1/8/2R5/8/1K6/3Q1p2/8 w - - 1 25", "8/8/8/4k3/8/8/8/3QK3 w - - 0 1", "k7/8/1K6/8/8/8/8/7R w - - 0 1"] {
        roots.push((GameSpec::fen(f), Spec::depth(if quick { 8 } else { 10 })));
    }
    // small endgames: a later search meets the positions of the stopped one again
    for f in ["8/8/8/4k3/8/8/4P3/4K3 w - - 0 1", "8/5p2/5k2/8/5K2/5P2/8/8 w - - 0 1", "8/8/p7/P7/1k6/8/1K6/8 b - - 0 1", "8/8/8/3k4/8/8/8/R3K3 b - - 0 1"] {
        roots.push((GameSpec::fen(f), Spec::depth(if quick { 11 } else { 13 })));
    }
    // time-limited under the virtual clock (1 microsecond per node)
    roots.push((GameSpec::fen(mid[1]), Spec { depth: None, tc: Tc::MoveTime(150), overhead_ms: 0 }));
    roots.push((GameSpec::fen(mid[0]), Spec { depth: None, tc: Tc::Clocks(Some(2000), Some(2000), Some(0), Some(0), None), overhead_ms: 0 }));
    // limits that have expired before the search starts: a zero move time, a zero clock, a missing clock
    roots.push((GameSpec::fen(mid[1]), Spec { depth: None, tc: Tc::MoveTime(0), overhead_ms: 0 }));
    roots.push((GameSpec::fen(mid[3]), Spec { depth: None, tc: Tc::Clocks(Some(0), Some(0), None, None, None), overhead_ms: 0 }));
    roots.push((GameSpec::fen(mid[0]), Spec { depth: None, tc: Tc::Clocks(None, Some(60_000), None, Some(1000), None), overhead_ms: 0 }));
    if !quick {
        for s in families::seeds().iter().filter(|s| s.big) {
            roots.push((GameSpec::fen(s.fen), Spec::depth(7)));
        }
    }
    let mut sessions: Vec<Session> = vec![];
    let mut total_polls = 0u64;
    for (g, spec) in &roots {
        let (game, _) = g.build().unwrap();
        let timed = !matches!(spec.tc, Tc::Infinite);
        let base_env = |k: Option<u64>| -> Env {
            match (k, timed) {
                (None, false) => Env::Default,
                (Some(k), false) => Env::StopAtPoll(k),
                (None, true) => Env::Clock(Clock::PerNode(1000)),
                (Some(k), true) => Env::StopAndClock(k, Clock::PerNode(1000)),
            }
        };
        let mut ps = PersistentState::new(1);
        let o = run_search(&mut ps, &game, spec, &base_env(None), if timed { 8_000_000 } else { DEFAULT_NODE_BUDGET });
        stats.searches.fetch_add(1, Ordering::Relaxed);
        if let Err(e) = &o.best {
            let sess = Session { hash_mb: 1, start_gen: 0, steps: vec![Step::Search(g.clone(), spec.clone(), base_env(None))] };
            let kind = if e.contains("node budget") { "search-does-not-terminate" } else { "search-panic" };
            run.violation(kind, format!("{kind}|{}", sess.key(0)), sess.json(0), format!("{} {} without a stop request: {e}", g.key(), spec.text()));
            continue;
        }
        let p = o.polls;
        total_polls += p;
        run.count("polls_of_unperturbed_searches", p);
        if p == 0 {
            run.count("roots_without_polls", 1);
        }
        let child = {
            let (_, pos) = g.build().unwrap();
            // the first legal move that leads to a non-terminal position
            let m = pos.legal_moves().into_iter().find(|m| !pos.apply(m).legal_moves().is_empty());
            let mut c = g.clone();
            if let Some(m) = m {
                c.moves.push(m.uci());
            }
            c
        };
        for k in 1..=p {
            // fresh table; afterwards the SAME search unperturbed on the same tables (it walks through the
            // positions the stopped search stood in), then a child position
            let again = if timed { Spec::depth(5) } else { spec.clone() };
            // (the table starts at generation 255: the stopped search is the one during which the counter reads 0,
            // as it does for every 256th search of a long session; the pre-filled variant below runs at 1)
            sessions.push(Session { hash_mb: 1, start_gen: 255, steps: vec![Step::Search(g.clone(), spec.clone(), base_env(Some(k))), Step::Search(g.clone(), again, Env::Default), Step::Search(child.clone(), Spec::depth(4), Env::Default)] });
            // table pre-filled by a previous complete search of the same position one ply shallower
            if let Some(d) = spec.depth {
                sessions.push(Session { hash_mb: 1, start_gen: 255, steps: vec![Step::Search(g.clone(), Spec::depth(d - 1), Env::Default), Step::Search(g.clone(), spec.clone(), base_env(Some(k))), Step::Search(child.clone(), Spec::depth(4), Env::Default)] });
            }
        }
    }
    run_sessions(run, Focus::C09, &sessions, &stats);
    run.family("STOP-INSTANTS", &format!("{} (position, limit) pairs; for every k in 1..=P (P = polls of the unstopped search, {} in total) the flag reads true from poll k on: on a fresh table and on a table pre-filled by a shallower search; followed by further searches of the same and of a child position", roots.len(), total_polls), sessions.len() as u64, stats.searches.load(Ordering::Relaxed), true, "polling frequency unchanged: only instants reachable in production");
    run.count("searches", stats.searches.load(Ordering::Relaxed));
    run.count("info_lines", stats.infos.load(Ordering::Relaxed));
    (sessions.len() as u64, stats.searches.load(Ordering::Relaxed))
}

pub fn replay_session(run: &Run, case: &J) {
    let sess = Session::from_json(case);
    let focus = match run.prop.as_str() {
        "C08" => Focus::C08,
        "C09" => Focus::C09,
        _ => Focus::C04,
    };
    let stats = Stats::new();
    let tr = exec_session(run, focus, &sess, &stats, DEFAULT_NODE_BUDGET);
    for (i, (best, infos)) in tr.iter().enumerate() {
        println!("search {}: bestmove {best}", i + 1);
        for inf in infos {
            println!("   info {}", inf.text());
        }
    }
    // C11's score oracles (the case says which one applies to the searches from `judged_from` on)
    if let Some(oracle) = case.get("score_oracle").and_then(|x| x.as_str()) {
        let from = case.get("judged_from").and_then(|x| x.as_i64()).unwrap_or(0) as usize;
        for (_, infos) in tr.iter().skip(from) {
            for inf in infos {
                let ok = match oracle {
                    "zero" => !inf.score.0 && inf.score.1 == 0,
                    _ => {
                        if inf.score.0 {
                            inf.score.1 > 0
                        } else {
                            inf.score.1 >= 0
                        }
                    }
                };
                if !ok {
                    run.violation("search-ignores-draw", String::new(), J::Null, format!("depth {} reports {} {} although a draw is {}", inf.depth, if inf.score.0 { "mate" } else { "cp" }, inf.score.1, if oracle == "zero" { "forced" } else { "available" }));
                    return;
                }
            }
        }
    }
}

/// A session case with the score oracle that judged it (used by replays).
fn with_oracle(mut j: J, oracle: &str, judged_from: usize) -> J {
    if let J::Obj(kv) = &mut j {
        kv.push(("score_oracle".to_string(), J::s(oracle)));
        kv.push(("judged_from".to_string(), J::i(judged_from as i64)));
    }
    j
}

// ------------------------------------------------------------------------------------------------ C11 inside the search

/// The search must TREAT a position as drawn when the game history says so, also when its tables hold
/// results from a time when it was not: if a root move leads to a position that repeats an earlier one
/// (or reaches the fifty-move limit with a legal reply), a draw is available and every reported score
/// is >= 0. Roots are positions in which the side to move is clearly worse (so that the plain score is
/// negative: the oracle is not vacuous); the tables are pre-filled by a search without the history.
pub fn c11_search(run: &Run) -> (u64, u64) {
    let quick = run.quick();
    let stats = Stats::new();
    let depth: u8 = if quick { 5 } else { 7 };
    let roots = [
        "q4rk1/3p2pp/8/8/8/8/4Q1PP/7K w - - 0 1",
        "6k1/5ppp/8/8/8/8/r4PPP/1R4K1 b - - 0 1",
        "4k3/8/8/8/8/2q5/8/R3K3 w - - 0 1",
        "8/8/8/8/3k4/8/1r6/R3K3 b - - 0 1",
        "r3k3/8/8/8/8/8/5Q2/4K3 b - - 0 1",
        "2r3k1/5ppp/8/8/8/8/5PPP/1Q4K1 b - - 0 1",
        "4k3/8/8/2n5/8/8/3R4/4K3 b - - 0 1",
        "4k3/8/8/8/8/8/n7/R3K3 b - - 0 1",
    ];
    let cases = AtomicU64::new(0);
    let negative_baselines = AtomicU64::new(0);
    let items: Vec<&str> = roots.to_vec();
    par_for(items.len(), |ri| {
        let fen = items[ri];
        let root = Pos::from_fen(fen).unwrap();
        if !root.is_legal_position() {
            run.machinery_error(format!("C11 search root {fen} is not legal"));
            return;
        }
        let quiet = |p: &Pos, m: &rc::RMove| !m.capture && !m.castle && m.promo.is_none() && p.board[m.from as usize].map(|x| x.1) != Some(Kind::P);
        // (a) repetition: histories m1 r1 m1^-1 r1^-1 that return to the root
        let mut histories: Vec<Vec<String>> = vec![];
        for m1 in root.legal_moves().iter().filter(|m| quiet(&root, m)) {
            let p1 = root.apply(m1);
            for r1 in p1.legal_moves().iter().filter(|m| quiet(&p1, m)) {
                let p2 = p1.apply(r1);
                let Some(b1) = p2.legal_moves().into_iter().find(|m| m.from == m1.to && m.to == m1.from && quiet(&p2, m)) else { continue };
                let p3 = p2.apply(&b1);
                let Some(b2) = p3.legal_moves().into_iter().find(|m| m.from == r1.to && m.to == r1.from && quiet(&p3, m)) else { continue };
                let p4 = p3.apply(&b2);
                if p4.board == root.board && p4.castle == root.castle {
                    histories.push(vec![m1.uci(), r1.uci(), b1.uci(), b2.uci()]);
                }
                if histories.len() >= if quick { 6 } else { 40 } {
                    break;
                }
            }
            if histories.len() >= if quick { 6 } else { 40 } {
                break;
            }
        }
        let judge = |sess: &Session, what: &str| {
            let tr = exec_session(run, Focus::C04, sess, &stats, DEFAULT_NODE_BUDGET);
            // baseline = first search, judged = the rest
            if let Some((_, infos)) = tr.first() {
                if infos.last().map_or(false, |i| !i.score.0 && i.score.1 < -50 || i.score.0 && i.score.1 < 0) {
                    negative_baselines.fetch_add(1, Ordering::Relaxed);
                }
            }
            for (si, (_, infos)) in tr.iter().enumerate().skip(1) {
                for inf in infos {
                    let ok = if inf.score.0 { inf.score.1 > 0 } else { inf.score.1 >= 0 };
                    if !ok {
                        run.violation("search-ignores-draw", format!("search-ignores-draw|{}", sess.key(si)), with_oracle(sess.json(si), "nonnegative", 1), format!("{what}: a move into a drawn position is available, yet depth {} reports {} {} (line {})", inf.depth, if inf.score.0 { "mate" } else { "cp" }, inf.score.1, inf.pv.join(" ")));
                        return;
                    }
                }
            }
        };
        for h in &histories {
            cases.fetch_add(1, Ordering::Relaxed);
            let with_history = GameSpec { fen: fen.to_string(), moves: h.clone() };
            let mut steps = vec![Step::Search(GameSpec::fen(fen), Spec::depth(depth + 1), Env::Default)];
            for d in 1..=depth {
                steps.push(Step::Search(with_history.clone(), Spec::depth(d), Env::Default));
            }
            judge(&Session { hash_mb: 1, start_gen: 0, steps }, &format!("{fen} after {} (the position repeats; {} again repeats a third time)", h.join(" "), h[0]));
        }
        // (b) fifty-move: the same position with the clock at 99: any quiet move that does not mate reaches 100
        let mut p99 = root.clone();
        p99.halfmove = 99;
        if p99.legal_moves().iter().any(|m| quiet(&p99, m) && !p99.apply(m).legal_moves().is_empty()) {
            cases.fetch_add(1, Ordering::Relaxed);
            let mut steps = vec![Step::Search(GameSpec::fen(fen), Spec::depth(depth + 1), Env::Default)];
            for d in 1..=depth {
                steps.push(Step::Search(GameSpec::fen(&p99.to_fen()), Spec::depth(d), Env::Default));
            }
            judge(&Session { hash_mb: 1, start_gen: 0, steps }, &format!("{} (halfmove clock 99: a quiet move reaches the fifty-move limit)", p99.to_fen()));
        }
    });
    // (c) dead material just beyond the horizon: roots (king and rook or queen v king and minor, the stronger side to
    // move) in which EVERY legal move is answered by a capture that leaves king and minor v king or bare kings, and
    // no root move captures or mates. Whatever the depth, every line ends in a dead position at once, and a dead
    // position scores 0 wherever the search meets it (in the capture search too): every reported score is cp 0.
    let dead = |p: &Pos| -> bool {
        let men: Vec<(Color, Kind)> = p.board.iter().flatten().copied().filter(|(_, k)| *k != Kind::K).collect();
        men.is_empty() || (men.len() == 1 && matches!(men[0].1, Kind::B | Kind::N))
    };
    let mut horizon_roots: Vec<Pos> = vec![];
    for strong in [Kind::R, Kind::Q] {
        for weak in [Kind::B, Kind::N] {
            for wk in [0u8, 2, 9, 18, 27, 36] {
                crate::families::enumerate_material(wk, &[(Color::W, strong), (Color::B, weak)], &mut |p: &Pos| {
                    if p.side != Color::W || p.in_check(Color::W) {
                        return;
                    }
                    let ms = p.legal_moves();
                    if ms.is_empty() || ms.iter().any(|m| m.capture) {
                        return;
                    }
                    let all_answered = ms.iter().all(|m| {
                        let q = p.apply(m);
                        q.legal_moves().iter().any(|c| c.capture && dead(&q.apply(c)))
                    });
                    if all_answered {
                        horizon_roots.push(p.clone());
                        horizon_roots.push(p.mirror());
                    }
                });
            }
        }
    }
    let hn = AtomicU64::new(0);
    par_for(horizon_roots.len(), |i| {
        let p = &horizon_roots[i];
        hn.fetch_add(1, Ordering::Relaxed);
        let g = GameSpec::fen(&p.to_fen());
        let sess = Session { hash_mb: 1, start_gen: 0, steps: (1..=3u8).map(|d| Step::Search(g.clone(), Spec::depth(d), Env::Default)).collect() };
        let tr = exec_session(run, Focus::C04, &sess, &stats, DEFAULT_NODE_BUDGET);
        for (si, (_, infos)) in tr.iter().enumerate() {
            for inf in infos {
                if inf.score.0 || inf.score.1 != 0 {
                    run.violation("search-ignores-draw", format!("search-ignores-dead-position|{}|{si}", p.to_fen()), with_oracle(sess.json(si), "zero", 0), format!("{}: every move is answered by a capture into a dead position, yet depth {} reports {} {} (line {})", p.to_fen(), inf.depth, if inf.score.0 { "mate" } else { "cp" }, inf.score.1, inf.pv.join(" ")));
                    return;
                }
            }
        }
    });
    let h = hn.load(Ordering::Relaxed);
    run.count("dead_at_horizon_roots", h);
    run.family("DEAD-AT-HORIZON", "all positions king + rook / queen (to move) v king + bishop / knight with the stronger side's king on 6 squares (and the colour-mirrored twins) in which every legal move is answered by a capture leaving a dead position: searched at depth 1, 2, 3; every reported score must be cp 0", h, 3 * h, true, "");
    let c = cases.load(Ordering::Relaxed) + h;
    run.count("search_draw_cases", c);
    run.count("search_draw_negative_baselines", negative_baselines.load(Ordering::Relaxed));
    run.family("SEARCH-TREATS-DRAWS", &format!("{} losing roots; per root up to {} histories m1 r1 m1^-1 r1^-1 returning to the root (then m1 repeats) and the root with the clock at 99; tables pre-filled by a depth-{} search without history; searches at depth 1..={depth} must report a score >= 0", roots.len(), if quick { 6 } else { 40 }, depth + 1), c, stats.searches.load(Ordering::Relaxed), true, "sound because a root move into a drawn position scores exactly 0");
    (c, stats.searches.load(Ordering::Relaxed))
}
