//! tvc — checked build of the verification harness for jgilchrist/tcheran (see /verif/DESIGN.md).
//! usage: tvc <C01..C20> <quick|thorough>   |   tvc replay <file>   |   tvc selftest

#![allow(clippy::all)]

include!(concat!(env!("OUT_DIR"), "/glue.rs"));

/// The table's count of occupied slots (`usize::MAX` when the implementation no longer exposes one).
#[cfg(verif_tt_occupied)]
#[macro_export]
macro_rules! tt_occ {
    ($t:expr) => {
        ($t.occupied as usize)
    };
}
#[cfg(not(verif_tt_occupied))]
#[macro_export]
macro_rules! tt_occ {
    ($t:expr) => {{
        let _ = &$t;
        usize::MAX
    }};
}
/// "No slot is occupied" by the counter if there is one, by the fill indicator otherwise.
#[macro_export]
macro_rules! tt_empty {
    ($t:expr) => {
        (if $crate::tt_occ!($t) == usize::MAX { ($t.occupancy() as usize) == 0 } else { $crate::tt_occ!($t) == 0 })
    };
}

mod hooks;
pub use hooks::{verif_hooks, verif_shim};

mod bbchk;
mod blackbox;
mod eng;
mod families;
mod monitors;
mod ops;
mod picker;
mod refchess;
mod report;
mod searchchk;
mod seefam;
mod session;
mod sweep;
mod ucichk;
mod ucidrv;
mod util;
mod checks;

fn main() {
    let args: Vec<String> = std::env::args().collect();
    if args.len() < 2 {
        eprintln!("usage: tvc <PROPERTY> <quick|thorough> | tvc replay <file> | tvc selftest");
        std::process::exit(2);
    }
    util::install_quiet_panic_hook();
    init();
    if let Err(e) = refchess::self_test() {
        eprintln!("MACHINERY ERROR: reference model self test failed: {e}");
        std::process::exit(2);
    }
    let code = match args[1].as_str() {
        "selftest" => {
            eprintln!("refchess self test ok");
            0
        }
        "replay" => checks::replay(&args[2]),
        "find-underpromo" => {
            // helper used once to pick roots whose only mate in one is an under-promotion
            use refchess::{sq, Color, Kind, Pos};
            let mut found = 0;
            'outer: for pf in 0..8 {
                for extra in [Kind::Q, Kind::R, Kind::B, Kind::N] {
                    for es in 0..64u8 {
                        for wk in 0..64u8 {
                            for bk in 40..64u8 {
                                let mut p = Pos::empty();
                                let ps = sq(pf, 6);
                                if [es, wk, bk].contains(&ps) || es == wk || es == bk || wk == bk || [es, wk, bk].contains(&sq(pf, 7)) {
                                    continue;
                                }
                                p.board[ps as usize] = Some((Color::W, Kind::P));
                                p.board[es as usize] = Some((Color::W, extra));
                                p.board[wk as usize] = Some((Color::W, Kind::K));
                                p.board[bk as usize] = Some((Color::B, Kind::K));
                                p.side = Color::W;
                                if !p.is_legal_position() {
                                    continue;
                                }
                                let ms = p.legal_moves();
                                let mates: Vec<_> = ms.iter().filter(|m| p.apply(m).is_checkmate()).collect();
                                if mates.len() == 1 && matches!(mates[0].promo, Some(Kind::N) | Some(Kind::B)) {
                                    println!("{} only mate: {}", p.to_fen(), mates[0].uci());
                                    found += 1;
                                    if found >= 12 {
                                        break 'outer;
                                    }
                                }
                            }
                        }
                    }
                }
            }
            0
        }
        prop => {
            let tier = args.get(2).map(|s| s.as_str()).unwrap_or("quick");
            let seed: u64 = std::env::var("VERIF_SEED").ok().and_then(|s| s.parse().ok()).unwrap_or(0);
            checks::run(prop, tier, seed)
        }
    };
    std::process::exit(code);
}
