//! tvc — checked build of the verification harness for jgilchrist/tcheran (see /verif/DESIGN.md).
//! usage: tvc <C01..C20> <quick|thorough>   |   tvc replay <file>   |   tvc selftest

#![allow(clippy::all)]

include!("../../common/glue.rs");

mod hooks;
pub use hooks::{verif_hooks, verif_shim};

mod bbchk;
mod blackbox;
mod eng;
mod families;
mod monitors;
mod ops;
mod picker;
mod refchess;
mod report;
mod searchchk;
mod seefam;
mod session;
mod sweep;
mod ucichk;
mod ucidrv;
mod util;
mod checks;

fn main() {
    let args: Vec<String> = std::env::args().collect();
    if args.len() < 2 {
        eprintln!("usage: tvc <PROPERTY> <quick|thorough> | tvc replay <file> | tvc selftest");
        std::process::exit(2);
    }
    util::install_quiet_panic_hook();
    init();
    if let Err(e) = refchess::self_test() {
        eprintln!("MACHINERY ERROR: reference model self test failed: {e}");
        std::process::exit(2);
    }
    let code = match args[1].as_str() {
        "selftest" => {
            eprintln!("refchess self test ok");
            0
        }
        "replay" => checks::replay(&args[2]),
        prop => {
            let tier = args.get(2).map(|s| s.as_str()).unwrap_or("quick");
            let seed: u64 = std::env::var("VERIF_SEED").ok().and_then(|s| s.parse().ok()).unwrap_or(0);
            checks::run(prop, tier, seed)
        }
    };
    std::process::exit(code);
}
