//! Bridge between the reference model and the engine's public types.

#![allow(dead_code)]

use crate::chess::board::Board;
use crate::chess::game::{CastleRights, Game};
use crate::chess::moves::Move;
use crate::chess::piece::{Piece, PieceKind, PromotionPieceKind};
use crate::chess::player::{ByPlayer, Player};
use crate::chess::square::Square;
use crate::refchess::{self as rc, Color, Kind, Pos, RMove};

pub fn kind_to_eng(k: Kind) -> PieceKind {
    match k {
        Kind::P => PieceKind::Pawn,
        Kind::N => PieceKind::Knight,
        Kind::B => PieceKind::Bishop,
        Kind::R => PieceKind::Rook,
        Kind::Q => PieceKind::Queen,
        Kind::K => PieceKind::King,
    }
}

pub fn kind_from_eng(k: PieceKind) -> Kind {
    match k {
        PieceKind::Pawn => Kind::P,
        PieceKind::Knight => Kind::N,
        PieceKind::Bishop => Kind::B,
        PieceKind::Rook => Kind::R,
        PieceKind::Queen => Kind::Q,
        PieceKind::King => Kind::K,
    }
}

pub fn color_to_eng(c: Color) -> Player {
    match c {
        Color::W => Player::White,
        Color::B => Player::Black,
    }
}

pub fn color_from_eng(p: Player) -> Color {
    match p {
        Player::White => Color::W,
        Player::Black => Color::B,
    }
}

pub fn sq_to_eng(s: rc::Sq) -> Square {
    Square::from_index(s)
}

/// Build the engine's `Game` for a reference position through the public constructors
/// (`Board::try_from` + `Game::from_state`), with the en-passant target given in the engine's own
/// convention (only if an enemy pawn stands beside the pushed pawn).
pub fn to_game(p: &Pos) -> Game {
    to_game_with_ep(p, if p.ep_adjacent() { p.ep } else { None })
}

pub fn to_game_with_ep(p: &Pos, ep: Option<rc::Sq>) -> Game {
    let mut squares: [Option<Piece>; 64] = [None; 64];
    for s in 0..64usize {
        if let Some((c, k)) = p.board[s] {
            squares[s] = Some(Piece::new(color_to_eng(c), kind_to_eng(k)));
        }
    }
    let board = Board::try_from(squares).unwrap();
    let rights = ByPlayer::new(
        CastleRights { king_side: p.castle[rc::WK], queen_side: p.castle[rc::WQ] },
        CastleRights { king_side: p.castle[rc::BK], queen_side: p.castle[rc::BQ] },
    );
    let plies = (p.fullmove.max(1) - 1) * 2 + u32::from(p.side == Color::B);
    Game::from_state(board, color_to_eng(p.side), rights, ep.map(sq_to_eng), p.halfmove, plies)
}

/// Read the engine's position back into the reference representation (the `ep` field carries the
/// ENGINE's recorded target, which may be None where the rules-level target exists).
pub fn from_game(g: &Game) -> Pos {
    let mut p = Pos::empty();
    for s in 0..64u8 {
        if let Some(pc) = g.board.piece_at(Square::from_index(s)) {
            p.board[s as usize] = Some((color_from_eng(pc.player), kind_from_eng(pc.kind)));
        }
    }
    p.side = color_from_eng(g.player);
    let [w, b] = g.castle_rights.inner();
    p.castle = [w.king_side, w.queen_side, b.king_side, b.queen_side];
    p.ep = g.en_passant_target.map(|s| s.idx());
    p.halfmove = g.halfmove_clock;
    p.fullmove = g.plies / 2 + 1;
    p
}

pub fn move_from_eng(m: Move) -> RMove {
    RMove {
        from: m.src().idx(),
        to: m.dst().idx(),
        promo: m.promotion().map(|p| match p {
            PromotionPieceKind::Knight => Kind::N,
            PromotionPieceKind::Bishop => Kind::B,
            PromotionPieceKind::Rook => Kind::R,
            PromotionPieceKind::Queen => Kind::Q,
        }),
        capture: m.is_capture(),
        ep: m.is_en_passant(),
        castle: m.is_castling(),
    }
}

/// Construct the engine move with exactly the flags of the reference move.
pub fn move_to_eng(m: &RMove) -> Move {
    let (s, d) = (sq_to_eng(m.from), sq_to_eng(m.to));
    let pk = |k: Kind| match k {
        Kind::N => PromotionPieceKind::Knight,
        Kind::B => PromotionPieceKind::Bishop,
        Kind::R => PromotionPieceKind::Rook,
        _ => PromotionPieceKind::Queen,
    };
    if m.castle {
        Move::castles(s, d)
    } else if m.ep {
        Move::en_passant(s, d)
    } else if let Some(k) = m.promo {
        if m.capture {
            Move::capture_promotion(s, d, pk(k))
        } else {
            Move::quiet_promotion(s, d, pk(k))
        }
    } else if m.capture {
        Move::capture(s, d)
    } else {
        Move::quiet(s, d)
    }
}

pub fn engine_moves(g: &Game) -> Vec<RMove> {
    g.moves().iter().map(|m| move_from_eng(*m)).collect()
}

/// Compact identity of a position: placement, side, castling rights, en-passant target (as given).
#[derive(Clone, Copy, PartialEq, Eq, Hash, PartialOrd, Ord, Debug)]
pub struct Ident(pub [u64; 4], pub u16);

pub fn ident_of(p: &Pos, ep: Option<rc::Sq>) -> Ident {
    let mut w = [0u64; 4];
    for s in 0..64usize {
        let code: u64 = match p.board[s] {
            None => 0,
            Some((c, k)) => 1 + (k as u64) + if c == Color::B { 6 } else { 0 },
        };
        w[s / 16] |= code << (4 * (s % 16));
    }
    let mut x: u16 = 0;
    for i in 0..4 {
        if p.castle[i] {
            x |= 1 << i;
        }
    }
    if p.side == Color::B {
        x |= 16;
    }
    // ep file (the rank is implied by the side to move)
    let e: u16 = match ep {
        Some(s) => 1 + u16::from(s % 8),
        None => 0,
    };
    Ident(w, x | (e << 5))
}

/// Rebuild the reference position (clocks zero) from an identity.
pub fn pos_of_ident(id: &Ident) -> Pos {
    let mut p = Pos::empty();
    for s in 0..64usize {
        let code = (id.0[s / 16] >> (4 * (s % 16))) & 0xf;
        if code != 0 {
            let c = if code > 6 { Color::B } else { Color::W };
            let k = match (code - 1) % 6 {
                0 => Kind::P,
                1 => Kind::N,
                2 => Kind::B,
                3 => Kind::R,
                4 => Kind::Q,
                _ => Kind::K,
            };
            p.board[s] = Some((c, k));
        }
    }
    for i in 0..4 {
        p.castle[i] = id.1 & (1 << i) != 0;
    }
    p.side = if id.1 & 16 != 0 { Color::B } else { Color::W };
    let e = (id.1 >> 5) & 0xf;
    if e != 0 {
        let f = (e - 1) as i32;
        // the side to move captures; the passed square is on the 6th rank for white, 3rd for black
        let r = if p.side == Color::W { 5 } else { 2 };
        p.ep = Some(rc::sq(f, r));
    }
    p
}
