//! tvc-sched — C05: the engine's real UCI command loop and search thread under the shuttle runtime with
//! an exhaustive, preemption-bounded, yield-aware depth-first scheduler (see /verif/DESIGN.md, C05).
//! usage: tvc-sched C05 <quick|thorough> | tvc-sched replay <file> | tvc-sched script <letters> <bound>

#![allow(clippy::all)]

include!(concat!(env!("OUT_DIR"), "/glue.rs"));

/// The table's count of occupied slots (`usize::MAX` when the implementation no longer exposes one).
#[cfg(verif_tt_occupied)]
#[macro_export]
macro_rules! tt_occ {
    ($t:expr) => {
        ($t.occupied as usize)
    };
}
#[cfg(not(verif_tt_occupied))]
#[macro_export]
macro_rules! tt_occ {
    ($t:expr) => {{
        let _ = &$t;
        usize::MAX
    }};
}
/// "No slot is occupied" by the counter if there is one, by the fill indicator otherwise.
#[macro_export]
macro_rules! tt_empty {
    ($t:expr) => {
        (if $crate::tt_occ!($t) == usize::MAX { ($t.occupancy() as usize) == 0 } else { $crate::tt_occ!($t) == 0 })
    };
}

#[path = "../../tvc/src/util.rs"]
mod util;
#[path = "../../tvc/src/report.rs"]
mod report;
#[path = "../../tvc/src/blackbox.rs"]
mod blackbox;

pub mod verif_shim {
    pub use ::std::*;
    pub mod sync {
        pub use ::shuttle::sync::*;
    }
    pub mod thread {
        pub use ::shuttle::thread::*;
    }
}

pub mod verif_hooks {
    use std::cell::{Cell, RefCell};
    use std::sync::atomic::Ordering::SeqCst;

    thread_local! {
        pub static LOG: RefCell<Vec<String>> = const { RefCell::new(Vec::new()) };
        /// the running search has no limit of its own: its polls are blocking waits for the stop flag
        pub static PARK: Cell<bool> = const { Cell::new(false) };
        /// the process has exited (quit): searches still alive end
        pub static EXITED: Cell<bool> = const { Cell::new(false) };
        pub static POLLS: Cell<u64> = const { Cell::new(0) };
        /// C12 mode: after every ucinewgame the shared tables must be empty, whatever the schedule
        pub static CHECK_FRESH: Cell<bool> = const { Cell::new(false) };
        /// C13 mode: a setoption Hash with a new value sent while no bestmove is outstanding must take effect
        pub static CHECK_RESIZED: Cell<bool> = const { Cell::new(false) };
    }

    pub fn poll(flag: &crate::verif_shim::sync::Arc<crate::verif_shim::sync::atomic::AtomicBool>) -> Option<bool> {
        POLLS.with(|p| p.set(p.get() + 1));
        if PARK.with(|p| p.get()) {
            // an unbounded search: between polls it performs no synchronisation, so "keeps searching and
            // polls now and then" is stutter-equivalent to waiting at the poll until the flag is set
            loop {
                if flag.load(SeqCst) {
                    return Some(true);
                }
                if EXITED.with(|e| e.get()) {
                    return Some(true);
                }
                ::shuttle::thread::yield_now();
            }
        }
        None
    }

    pub fn nodes(_n: u64) {}

    pub fn limits(_soft: std::time::Duration, _hard: std::time::Duration) {}

    pub fn response(line: &str) -> bool {
        LOG.with(|l| l.borrow_mut().push(line.to_string()));
        true
    }
}

use report::Run;
use shuttle::scheduler::{Schedule, Scheduler, Task, TaskId};
use std::collections::BTreeSet;
use std::sync::{Arc, Mutex};
use util::J;
use verif_hooks::{EXITED, LOG, PARK};

// ------------------------------------------------------------------------------------------------ scheduler

#[derive(Default)]
struct Shared {
    /// (choice taken, number of options) per scheduling step of the current execution
    levels: Vec<(usize, usize)>,
    executions: u64,
    steps: u64,
    max_depth: usize,
    nondeterminism: Option<String>,
}

/// Depth-first enumeration of all scheduling choices with a preemption bound. A task that yields is
/// not re-chosen while another task is runnable (sound for pure spin-waits). Canonical order: the
/// running task first; switching away from a runnable, non-yielding running task costs one preemption.
struct YDfs {
    sh: Arc<Mutex<Shared>>,
    step: usize,
    started: bool,
    bound: usize,
    preempt: usize,
    /// replay mode: follow exactly these choices, then stop
    replay: Option<Vec<usize>>,
    done_replay: bool,
}

impl YDfs {
    fn new(bound: usize, sh: Arc<Mutex<Shared>>) -> Self {
        YDfs { sh, step: 0, started: false, bound, preempt: 0, replay: None, done_replay: false }
    }
    fn replaying(choices: Vec<usize>, sh: Arc<Mutex<Shared>>) -> Self {
        YDfs { sh, step: 0, started: false, bound: usize::MAX, preempt: 0, replay: Some(choices), done_replay: false }
    }
}

impl Scheduler for YDfs {
    fn new_execution(&mut self) -> Option<Schedule> {
        let mut sh = self.sh.lock().unwrap();
        if self.replay.is_some() {
            if self.done_replay {
                return None;
            }
            self.done_replay = true;
            sh.levels.clear();
        } else if self.started {
            // advance the odometer: drop exhausted trailing levels, bump the last one
            while let Some(&(c, n)) = sh.levels.last() {
                if c + 1 >= n {
                    sh.levels.pop();
                } else {
                    break;
                }
            }
            match sh.levels.last_mut() {
                None => return None,
                Some(l) => l.0 += 1,
            }
        }
        self.started = true;
        self.step = 0;
        self.preempt = 0;
        sh.executions += 1;
        Some(Schedule::new(0))
    }

    fn next_task(&mut self, runnable: &[&Task], current: Option<TaskId>, is_yielding: bool) -> Option<TaskId> {
        let mut sh = self.sh.lock().unwrap();
        let mut opts: Vec<TaskId> = runnable.iter().map(|t| t.id()).collect();
        if is_yielding && opts.len() > 1 {
            if let Some(c) = current {
                opts.retain(|t| *t != c);
            }
        }
        let cur_in = current.map_or(false, |c| opts.contains(&c));
        if cur_in {
            let c = current.unwrap();
            let p = opts.iter().position(|t| *t == c).unwrap();
            opts.swap(0, p);
            if self.preempt >= self.bound {
                opts.truncate(1);
            }
        }
        let choice = if let Some(r) = &self.replay {
            let c = r.get(self.step).copied().unwrap_or(0);
            if c >= opts.len() {
                sh.nondeterminism = Some(format!("replay: choice {c} of {} options at step {}", opts.len(), self.step));
                0
            } else {
                sh.levels.push((c, opts.len()));
                c
            }
        } else if self.step < sh.levels.len() {
            let (c, n) = sh.levels[self.step];
            if n != opts.len() {
                sh.nondeterminism = Some(format!("step {}: {} options now, {} when this prefix was first run", self.step, opts.len(), n));
                return None;
            }
            c
        } else {
            sh.levels.push((0, opts.len()));
            0
        };
        if cur_in && choice != 0 {
            self.preempt += 1;
        }
        self.step += 1;
        sh.steps += 1;
        if self.step > sh.max_depth {
            sh.max_depth = self.step;
        }
        Some(opts[choice])
    }

    fn next_u64(&mut self) -> u64 {
        0
    }
}

// ------------------------------------------------------------------------------------------------ scripts

pub const ALPHABET: &[u8] = b"INPHFDGSAQ";

pub fn letter_name(c: u8) -> &'static str {
    match c {
        b'I' => "isready",
        b'N' => "ucinewgame+position",
        b'P' => "position",
        b'H' => "setoption Hash",
        b'F' => "go depth 1",
        b'D' => "go depth 3",
        b'G' => "go infinite",
        b'S' => "stop",
        b'A' => "(await bestmove)",
        b'Q' => "quit",
        b'E' => "(epilogue: stop if needed, await, isready)",
        b'1' => "(dialect: positions with exactly one legal move; go depth N also carries both clocks)",
        b'2' => "(dialect: the start position)",
        _ => "?",
    }
}

/// A conforming GUI: go / ucinewgame / position / setoption only while no bestmove is outstanding;
/// await only when one is outstanding and can arrive; stop and isready anywhere; quit last.
pub fn well_formed(s: &[u8]) -> bool {
    let mut outstanding = false;
    let mut can_arrive = false;
    for (i, &c) in s.iter().enumerate() {
        match c {
            b'N' | b'P' | b'H' => {
                if outstanding {
                    return false;
                }
            }
            b'F' | b'D' => {
                if outstanding {
                    return false;
                }
                outstanding = true;
                can_arrive = true;
            }
            b'G' => {
                if outstanding {
                    return false;
                }
                outstanding = true;
                can_arrive = false;
            }
            b'S' => {
                if outstanding {
                    can_arrive = true;
                }
            }
            b'A' => {
                if !outstanding || !can_arrive {
                    return false;
                }
                outstanding = false;
            }
            b'Q' => {
                if i != s.len() - 1 {
                    return false;
                }
            }
            _ => {}
        }
    }
    true
}

const POS: &str = "position fen 8/8/8/8/8/8/4P3/K6k w - - 0 1";

fn count(prefix: &str) -> usize {
    LOG.with(|l| l.borrow().iter().filter(|x| x.starts_with(prefix)).count())
}

fn await_bestmoves(gos: usize) {
    while count("bestmove") < gos {
        shuttle::thread::yield_now();
    }
}

/// The GUI task: the real command loop driven by one script. Panics (= failing execution) on a
/// violated expectation; a hang shows up as a shuttle deadlock or as the step bound.
fn run_script(script: &[u8], abstract_states: &Mutex<BTreeSet<String>>) {
    LOG.with(|l| l.borrow_mut().clear());
    PARK.with(|p| p.set(false));
    EXITED.with(|e| e.set(false));
    let mut u = engine::uci::Uci::verif_new(1);
    // dialect 1 (scripts starting with '1'): roots with exactly one legal move, searches that carry clocks as well
    let forced = script.first() == Some(&b'1');
    // dialect 2 (scripts starting with '2'): the start position, where the move-ordering tables matter
    let rich = script.first() == Some(&b'2');
    let pos = if forced {
        "position fen 8/8/8/8/8/5k2/8/r6K w - - 0 1"
    } else if rich {
        "position startpos"
    } else {
        POS
    };
    u.verif_run_line(pos).unwrap();
    let (mut gos, mut isr) = (0usize, 0usize);
    let (mut outstanding, mut can_arrive, mut quit) = (false, false, false);
    let mut hash_now = 1usize;
    let mut full: Vec<u8> = script.to_vec();
    if !full.ends_with(b"Q") {
        full.push(b'E');
    }
    for c in full {
        match c {
            b'I' => {
                assert!(u.verif_run_line("isready").unwrap());
                isr += 1;
                assert_eq!(count("readyok"), isr, "isready not answered by readyok");
            }
            b'N' => {
                assert!(u.verif_run_line("ucinewgame").unwrap());
                if verif_hooks::CHECK_FRESH.with(|c| c.get()) {
                    let ps = u.verif_persistent_state().clone();
                    let g = ps.lock().unwrap();
                    assert!(crate::tt_empty!(g.tt) && (g.tt.occupancy() as usize) == 0, "ucinewgame returned but the shared tables were not reset ({} entries left)", crate::tt_occ!(g.tt));
                }
                assert!(u.verif_run_line(pos).unwrap());
            }
            b'1' | b'2' => {}
            b'P' => {
                assert!(u
                    .verif_run_line(if forced {
                        "position fen R6k/8/5K2/8/8/8/8/8 b - - 0 1"
                    } else if rich {
                        "position startpos moves e2e4"
                    } else {
                        "position fen 8/8/8/8/8/8/4P3/K6k w - - 0 1 moves e2e4"
                    })
                    .unwrap());
            }
            b'H' => {
                // always a value different from the one in force (2, 3, 2, ...)
                hash_now = if hash_now == 2 { 3 } else { 2 };
                assert!(u.verif_run_line(&format!("setoption name Hash value {hash_now}")).unwrap());
                if verif_hooks::CHECK_RESIZED.with(|c| c.get()) {
                    let ps = u.verif_persistent_state().clone();
                    let g = ps.lock().unwrap();
                    assert!(crate::tt_empty!(g.tt), "setoption name Hash value {hash_now} was sent while no bestmove was outstanding, yet the table was not resized ({} entries of the old table left, option reads {})", crate::tt_occ!(g.tt), u.verif_options().hash_size);
                }
            }
            b'F' | b'D' | b'G' => {
                PARK.with(|p| p.set(c == b'G'));
                let line = match (c, forced) {
                    (b'F', false) => "go depth 1",
                    (b'D', false) => "go depth 3",
                    (b'F', true) => "go wtime 600000 btime 600000 depth 1",
                    (b'D', true) => "go wtime 600000 btime 600000 winc 1000 binc 1000 movestogo 40 depth 3",
                    _ => "go infinite",
                };
                assert!(u.verif_run_line(line).unwrap());
                gos += 1;
                outstanding = true;
                can_arrive = c != b'G';
            }
            b'S' => {
                assert!(u.verif_run_line("stop").unwrap());
                if outstanding {
                    can_arrive = true;
                }
            }
            b'A' => {
                await_bestmoves(gos);
                outstanding = false;
            }
            b'Q' => {
                assert!(!u.verif_run_line("quit").unwrap(), "quit does not end the command loop");
                quit = true;
                EXITED.with(|e| e.set(true));
            }
            b'E' => {
                if outstanding {
                    if !can_arrive {
                        assert!(u.verif_run_line("stop").unwrap());
                    }
                    await_bestmoves(gos);
                    outstanding = false;
                }
                assert!(u.verif_run_line("isready").unwrap());
                isr += 1;
                assert_eq!(count("readyok"), isr, "isready not answered by readyok");
            }
            _ => unreachable!(),
        }
        assert!(count("bestmove") <= gos, "more bestmove answers than go commands");
        if !quit {
            let st = u.verif_protocol_state();
            abstract_states.lock().unwrap().insert(format!("control={} latch={} state_free={} outstanding={} pending_bestmoves={}", st.0, st.1, st.2, outstanding, gos - count("bestmove")));
        }
    }
    if !quit {
        assert_eq!(count("bestmove"), gos, "a go was not answered by exactly one bestmove");
    }
    // same commands, same searches: what the searches print must not depend on the schedule
    let expected = EXPECT_TRACE.with(|e| e.borrow().clone());
    if let Some(exp) = expected {
        let got = search_trace();
        assert!(got == exp, "the searches of this script print different lines under this schedule than under the schedule without preemptions: {:?} instead of {:?}", first_difference(&got, &exp).0, first_difference(&got, &exp).1);
    }
    EXITED.with(|e| e.set(true));
}

thread_local! {
    static EXPECT_TRACE: std::cell::RefCell<Option<Vec<String>>> = const { std::cell::RefCell::new(None) };
}

/// The info and bestmove lines printed so far, without their time and nps fields.
fn search_trace() -> Vec<String> {
    LOG.with(|l| l.borrow().iter().filter(|x| x.starts_with("info") || x.starts_with("bestmove")).map(|x| strip_info(x)).collect())
}

fn first_difference(a: &[String], b: &[String]) -> (String, String) {
    for i in 0..a.len().max(b.len()) {
        let (x, y) = (a.get(i).cloned().unwrap_or_default(), b.get(i).cloned().unwrap_or_default());
        if x != y {
            return (x, y);
        }
    }
    (String::new(), String::new())
}

pub fn all_scripts(maxlen: usize) -> Vec<Vec<u8>> {
    let mut out = vec![];
    let mut last: Vec<Vec<u8>> = vec![vec![]];
    for _ in 0..maxlen {
        let mut next = vec![];
        for s in &last {
            for a in ALPHABET {
                let mut t = s.clone();
                t.push(*a);
                if well_formed(&t) {
                    next.push(t);
                }
            }
        }
        out.extend(next.iter().cloned());
        // a script ending in quit cannot be extended
        last = next.into_iter().filter(|s| !s.ends_with(b"Q")).collect();
    }
    out
}

pub struct Explored {
    pub executions: u64,
    pub steps: u64,
    pub max_depth: usize,
    /// failing execution: (message, choice list)
    pub failure: Option<(String, Vec<usize>)>,
    pub nondeterminism: Option<String>,
}

fn config() -> shuttle::Config {
    let mut cfg = shuttle::Config::new();
    cfg.stack_size = 16 * 1024 * 1024;
    cfg.failure_persistence = shuttle::FailurePersistence::None;
    cfg.max_steps = shuttle::MaxSteps::FailAfter(20_000);
    cfg.silence_warnings = true;
    cfg
}

/// All schedules of one script with at most `bound` preemptions (stops at the first failing one).
pub fn explore(script: &[u8], bound: usize, abs: &Arc<Mutex<BTreeSet<String>>>) -> Explored {
    let sh = Arc::new(Mutex::new(Shared::default()));
    let (s2, sh2, abs2) = (script.to_vec(), sh.clone(), abs.clone());
    let r = util::catch(move || {
        let runner = shuttle::Runner::new(YDfs::new(bound, sh2), config());
        runner.run(move || run_script(&s2, &abs2));
    });
    let sh = sh.lock().unwrap();
    Explored {
        executions: sh.executions,
        steps: sh.steps,
        max_depth: sh.max_depth,
        failure: r.err().map(|m| (m, sh.levels.iter().map(|l| l.0).collect())),
        nondeterminism: sh.nondeterminism.clone(),
    }
}

/// One schedule, given by its choice list. Returns (response log, failure message).
pub fn replay_schedule(script: &[u8], choices: &[usize]) -> (Vec<String>, Option<String>, Option<String>) {
    let sh = Arc::new(Mutex::new(Shared::default()));
    let abs = Arc::new(Mutex::new(BTreeSet::new()));
    let (s2, sh2, c2) = (script.to_vec(), sh.clone(), choices.to_vec());
    let r = util::catch(move || {
        let runner = shuttle::Runner::new(YDfs::replaying(c2, sh2), config());
        runner.run(move || run_script(&s2, &abs));
    });
    // time and nps depend on the real clock: removed before logs are compared
    let log = LOG.with(|l| l.borrow().iter().map(|x| strip_info(x)).collect::<Vec<_>>());
    let nd = sh.lock().unwrap().nondeterminism.clone();
    (log, r.err(), nd)
}

fn strip_info(line: &str) -> String {
    let w: Vec<&str> = line.split_whitespace().collect();
    let mut out = vec![];
    let mut i = 0;
    while i < w.len() {
        if w[i] == "time" || w[i] == "nps" {
            i += 2;
            continue;
        }
        out.push(w[i]);
        i += 1;
    }
    out.join(" ")
}

fn script_text(s: &[u8]) -> String {
    s.iter().map(|c| letter_name(*c)).collect::<Vec<_>>().join(" ; ")
}

fn case_json(script: &[u8], bound: usize, choices: &[usize]) -> J {
    J::obj(vec![
        ("kind", J::s("uci-schedule")),
        ("script", J::s(String::from_utf8_lossy(script).to_string())),
        ("script_text", J::s(script_text(script))),
        ("preemption_bound", J::i(bound as i64)),
        ("schedule", J::Arr(choices.iter().map(|c| J::i(*c as i64)).collect())),
    ])
}

/// E7 for C05: one script on the optimised binary with real threads (one schedule, labelled so).
fn blackbox_script(bin: &str, script: &[u8], tiny_tree: bool, mode: u8) -> Result<(), String> {
    // mode 0: depth limits; 1: Move Overhead 1000 with movetime / clock limits; 2: odd but valid phrasings of go;
    // 3: positions with exactly one legal move, searches limited by clocks only; 4: limits of zero (movetime 0, a flag
    // that has fallen, the mover's own clock not given)
    let overhead_mode = mode == 1;
    use std::time::Duration;
    let t = Duration::from_secs(20);
    let mut e = blackbox::Engine::start(bin)?;
    e.send("setoption name Hash value 1")?;
    // tiny tree: bare kings — an unbounded search runs out of depth within milliseconds
    let base = if mode == 3 {
        "position fen 8/8/8/8/8/5k2/8/r6K w - - 0 1"
    } else if tiny_tree {
        "position fen 8/8/8/3k4/8/3K4/8/8 w - - 0 1"
    } else {
        "position startpos"
    };
    e.send(base)?;
    // overhead mode: the largest advertised Move Overhead, and finite searches limited by a small movetime
    if overhead_mode {
        e.send("setoption name Move Overhead value 1000")?;
    }
    let (mut gos, mut isr) = (0usize, 0usize);
    e.send("isready")?;
    isr += 1;
    e.wait_for_count("readyok", isr, t)?;
    let (mut outstanding, mut can_arrive) = (false, false);
    let mut full = script.to_vec();
    if !full.ends_with(b"Q") {
        full.push(b'E');
    }
    for c in full {
        match c {
            b'I' => {
                e.send("isready")?;
                isr += 1;
                e.wait_for_count("readyok", isr, t).map_err(|m| format!("isready not answered: {m}"))?;
            }
            b'N' => {
                e.send("ucinewgame")?;
                e.send(base)?;
            }
            b'P' => e.send(if mode == 3 {
                "position fen R6k/8/5K2/8/8/8/8/8 b - - 0 1"
            } else if tiny_tree {
                "position fen 8/8/8/3k4/8/3K4/8/8 w - - 0 1 moves d3e3"
            } else {
                "position startpos moves e2e4"
            })?,
            b'H' => e.send("setoption name Hash value 2")?,
            b'F' | b'D' | b'G' => {
                if c == b'G' && tiny_tree {
                    // give the unbounded search the time to exhaust its depth before the next command
                    e.send("go infinite")?;
                    std::thread::sleep(Duration::from_millis(30));
                    gos += 1;
                    outstanding = true;
                    can_arrive = false;
                    continue;
                }
                e.send(match (c, mode) {
                    (b'F', 0) => "go depth 1",
                    (b'F', 1) => "go movetime 30",
                    (b'F', 2) => "go btime 300 wtime -50 binc 0 winc 0 depth 1",
                    (b'F', 3) => "go wtime 2000 btime 2000",
                    (b'F', _) => "go movetime 0",
                    (b'D', 0) => "go depth 3",
                    (b'D', 1) => "go wtime 300 btime 300 movestogo 3",
                    (b'D', 2) => "go  depth 3   movetime 100000000",
                    (b'D', 3) => "go wtime 1000 btime 1000 winc 100 binc 100 movestogo 10",
                    (b'D', _) => "go wtime 0 btime 0 winc 0 binc 0",
                    _ => "go infinite",
                })?;
                gos += 1;
                outstanding = true;
                can_arrive = c != b'G';
            }
            b'S' => {
                e.send("stop")?;
                if outstanding {
                    can_arrive = true;
                }
            }
            b'A' => {
                e.wait_for_count("bestmove", gos, t).map_err(|m| format!("go not answered by bestmove: {m}"))?;
                outstanding = false;
            }
            b'Q' => {
                return e.quit(t).map(|_| ()).map_err(|m| format!("quit: {m}"));
            }
            b'E' => {
                if outstanding && !can_arrive {
                    e.send("stop")?;
                }
                e.wait_for_count("bestmove", gos, t).map_err(|m| format!("go not answered by bestmove: {m}"))?;
                e.send("isready")?;
                isr += 1;
                e.wait_for_count("readyok", isr, t).map_err(|m| format!("isready not answered at the end: {m}"))?;
                if e.count("bestmove") != gos {
                    return Err(format!("{} bestmove lines for {gos} go commands", e.count("bestmove")));
                }
                return e.quit(t).map(|_| ()).map_err(|m| format!("quit: {m}"));
            }
            _ => {}
        }
    }
    Ok(())
}

struct Tier {
    /// (max script length, preemption bound)
    levels: Vec<(usize, usize)>,
    fixpoint_len: usize,
}

fn c05(run: &Run) -> i32 {
    let tier = if run.quick() { Tier { levels: vec![(3, 3), (4, 2), (5, 1)], fixpoint_len: 5 } } else { Tier { levels: vec![(3, 4), (5, 3), (6, 2)], fixpoint_len: 6 } };
    let maxlen = tier.levels.iter().map(|l| l.0).max().unwrap();
    let scripts = all_scripts(maxlen);
    let by_len: Vec<usize> = (1..=maxlen).map(|l| scripts.iter().filter(|s| s.len() == l).count()).collect();
    run.note(format!("alphabet {:?}; well-formed scripts per length 1..={maxlen}: {:?}", ALPHABET.iter().map(|c| letter_name(*c)).collect::<Vec<_>>(), by_len));
    // work items: (script, bound) with the largest bound that applies to the script's length
    let mut items: Vec<(Vec<u8>, usize)> = vec![];
    for s in &scripts {
        if let Some(b) = tier.levels.iter().filter(|(l, _)| s.len() <= *l).map(|(_, b)| *b).max() {
            items.push((s.clone(), b));
        }
    }
    // dialect 1: the scripts with a finite search, on roots with one legal move and with clocks on the go line
    let (dl, db) = if run.quick() { (3usize, 2usize) } else { (4, 3) };
    let mut dialect_items = 0usize;
    for s in &scripts {
        if s.len() <= dl && (s.contains(&b'F') || s.contains(&b'D')) {
            let mut t = vec![b'1'];
            t.extend(s.iter().copied());
            items.push((t, db));
            dialect_items += 1;
        }
    }
    run.note(format!("dialect 1 (roots with exactly one legal move, clocks on the go line): {dialect_items} scripts of length <= {dl} with a finite search, preemption bound {db}"));
    let abs_by_len: Vec<Arc<Mutex<BTreeSet<String>>>> = (0..=maxlen + 1).map(|_| Arc::new(Mutex::new(BTreeSet::new()))).collect();
    let totals = Mutex::new((0u64, 0u64, 0usize)); // executions, steps, max depth
    let failing: Mutex<Vec<(Vec<u8>, usize, String, Vec<usize>)>> = Mutex::new(vec![]);
    let outcomes: Mutex<BTreeSet<String>> = Mutex::new(BTreeSet::new());
    util::par_for(items.len(), |i| {
        let (s, b) = &items[i];
        // (the abstract states of dialect scripts are kept apart from the fixpoint computation: last bucket)
        let e = explore(s, *b, if s.first() == Some(&b'1') { &abs_by_len[maxlen + 1] } else { &abs_by_len[s.len()] });
        let mut t = totals.lock().unwrap();
        t.0 += e.executions;
        t.1 += e.steps;
        t.2 = t.2.max(e.max_depth);
        drop(t);
        if let Some(nd) = e.nondeterminism {
            run.machinery_error(format!("script {}: uncontrolled nondeterminism: {nd}", String::from_utf8_lossy(s)));
        }
        outcomes.lock().unwrap().insert(format!("{}:{}", e.executions.min(50), e.failure.is_some()));
        if let Some((msg, choices)) = e.failure {
            failing.lock().unwrap().push((s.clone(), *b, msg, choices));
        }
    });
    let (execs, steps, maxd) = *totals.lock().unwrap();
    for (l, b) in &tier.levels {
        let n = items.iter().filter(|(s, bb)| s.len() <= *l && bb == b).count();
        run.note(format!("scripts of length <= {l} explored at preemption bound {b}: {n}"));
    }
    run.family("E6-SCHEDULES", &format!("well-formed scripts over a {}-letter alphabet; (max length, preemption bound) = {:?}; every schedule of the GUI task and the search task(s) at shuttle's scheduling points within the bound", ALPHABET.len(), tier.levels), execs, steps, true, &format!("{} scripts, longest schedule {} steps", items.len(), maxd));
    // failures: shortest script first, replayed twice before being reported
    let mut fails = failing.into_inner().unwrap();
    fails.sort_by(|a, b| (a.0.len(), &a.0).cmp(&(b.0.len(), &b.0)));
    for (s, b, msg, choices) in &fails {
        let (log1, f1, nd1) = replay_schedule(s, choices);
        let (log2, f2, _) = replay_schedule(s, choices);
        if nd1.is_some() || log1 != log2 || f1.is_some() != f2.is_some() {
            run.machinery_error(format!("script {}: the failing schedule does not replay deterministically ({:?})", String::from_utf8_lossy(s), nd1));
            continue;
        }
        if f1.is_none() {
            run.machinery_error(format!("script {}: the failing schedule passes when replayed", String::from_utf8_lossy(s)));
            continue;
        }
        let kind = if msg.contains("deadlock") { "uci-deadlock" } else if msg.contains("max_steps") || msg.contains("exceeded") { "uci-livelock" } else { "uci-protocol" };
        let short = msg.lines().next().unwrap_or("").chars().take(200).collect::<String>();
        run.violation(kind, format!("{kind}|script {}", String::from_utf8_lossy(s)), case_json(s, *b, choices), format!("[{}] under a schedule with <= {b} preemptions: {short}; responses so far: {:?}", script_text(s), log1));
    }
    run.count("failing_scripts", fails.len() as u64);
    // abstract-state fixpoint
    let mut q: Vec<BTreeSet<String>> = vec![];
    let mut acc = BTreeSet::new();
    for l in 1..=maxlen {
        acc.extend(abs_by_len[l].lock().unwrap().iter().cloned());
        q.push(acc.clone());
    }
    let sizes: Vec<usize> = q.iter().map(|s| s.len()).collect();
    let closed = sizes.len() >= 2 && sizes[sizes.len() - 1] == sizes[sizes.len() - 2];
    run.note(format!("abstract protocol states |Q_L| for L = 1..={maxlen}: {:?}; closed at the last step: {closed}", sizes));
    run.count("abstract_states", *sizes.last().unwrap_or(&0) as u64);
    let _ = tier.fixpoint_len;
    for st in q.last().unwrap().iter().take(6) {
        run.sample(J::obj(vec![("abstract_state", J::s(st.clone()))]));
    }
    run.sample(J::obj(vec![("script", J::s("FANS")), ("meaning", J::s(script_text(b"FANS"))), ("schedules", J::s("every interleaving of the GUI task and the search task with at most 2 preemptions"))]));
    for o in outcomes.lock().unwrap().iter() {
        run.distinct_outcome(o.clone());
    }
    if outcomes.lock().unwrap().len() < 2 {
        run.machinery_error("vacuity guard: every script has the same number of schedules".to_string());
    }
    *run.traces_validated.lock().unwrap() = execs;
    // E7: the same scripts on the optimised binary
    match blackbox::binary() {
        None => run.machinery_error("E7: VERIF_ENGINE_BIN is not set or the optimised engine binary is missing (./check builds it)".to_string()),
        Some(bin) => {
            let bb_len = if run.quick() { 4 } else { 5 };
            // quick: all scripts up to length 3, and those of length 4 that stop or reconfigure after a go
            let bb: Vec<&Vec<u8>> = scripts.iter().filter(|s| s.len() <= bb_len && (!run.quick() || s.len() <= 3 || (s.iter().any(|c| b"FDG".contains(c)) && s.iter().any(|c| b"NH".contains(c)) && s.contains(&b'S')))).collect();
            let n = std::sync::atomic::AtomicU64::new(0);
            util::par_for(bb.len(), |i| {
                n.fetch_add(1, std::sync::atomic::Ordering::Relaxed);
                for (tiny, overhead) in [(false, 0u8), (true, 0), (false, 1), (false, 2), (false, 3), (false, 4)] {
                    // the bare-kings variant only differs for scripts with an unbounded search, the overhead variant for
                    // scripts with a finite one
                    if (tiny && !bb[i].contains(&b'G')) || (overhead > 0 && !(bb[i].contains(&b'F') || bb[i].contains(&b'D'))) {
                        continue;
                    }
                    if let Err(m) = blackbox_script(&bin, bb[i], tiny, overhead) {
                        let lines: Vec<J> = bb[i].iter().map(|c| J::s(letter_name(*c))).collect();
                        run.violation("blackbox-hang", format!("blackbox-hang|script {} tiny_tree={tiny} overhead={overhead}", String::from_utf8_lossy(bb[i])), J::obj(vec![("kind", J::s("uci-blackbox-script")), ("script", J::s(String::from_utf8_lossy(bb[i]).to_string())), ("tiny_tree", J::Bool(tiny)), ("mode", J::i(overhead as i64)), ("lines", J::Arr(lines))]), format!("optimised binary, script [{}] ({}{}): {m}", script_text(bb[i]), if tiny { "bare kings: the unbounded search exhausts its depth" } else { "start position" }, match overhead { 1 => "; Move Overhead 1000, finite searches limited by movetime 30 / clocks 300", 2 => "; go phrased with a negative clock / double blanks / a movetime that cannot bind", 3 => "; positions with exactly one legal move, searches limited by clocks only", 4 => "; limits of zero: go movetime 0 / go wtime 0 btime 0", _ => "" }));
                    }
                }
            });
            // the same scripts given to the binary as one command-list argument (`engine "<commands>"`: every go is
            // waited for before the next command is run, then the process ends by itself)
            let oneshot: Vec<&Vec<u8>> = scripts.iter().filter(|s| s.len() <= 3 && s.iter().all(|c| b"INPHFD".contains(c)) && s.iter().any(|c| b"FD".contains(c))).collect();
            let n1 = std::sync::atomic::AtomicU64::new(0);
            util::par_for(oneshot.len(), |i| {
                n1.fetch_add(1, std::sync::atomic::Ordering::Relaxed);
                let mut lines: Vec<&str> = vec!["setoption name Hash value 1", "position startpos"];
                let (mut gos, mut isr) = (0usize, 0usize);
                for c in oneshot[i].iter() {
                    match c {
                        b'I' => {
                            lines.push("isready");
                            isr += 1;
                        }
                        b'N' => {
                            lines.push("ucinewgame");
                            lines.push("position startpos");
                        }
                        b'P' => lines.push("position startpos moves e2e4"),
                        b'H' => lines.push("setoption name Hash value 2"),
                        b'F' => {
                            lines.push("go depth 1");
                            gos += 1;
                        }
                        _ => {
                            lines.push("go depth 3");
                            gos += 1;
                        }
                    }
                }
                lines.push("isready");
                isr += 1;
                let arg = lines.join("\n");
                let r = (|| -> Result<(), String> {
                    let mut child = std::process::Command::new(&bin).arg(&arg).stdin(std::process::Stdio::null()).stdout(std::process::Stdio::piped()).stderr(std::process::Stdio::null()).spawn().map_err(|e| e.to_string())?;
                    let deadline = std::time::Instant::now() + std::time::Duration::from_secs(20);
                    loop {
                        match child.try_wait() {
                            Ok(Some(st)) => {
                                let mut out = String::new();
                                use std::io::Read;
                                let _ = child.stdout.take().unwrap().read_to_string(&mut out);
                                let bm = out.lines().filter(|l| l.starts_with("bestmove")).count();
                                let ro = out.lines().filter(|l| l.starts_with("readyok")).count();
                                if !st.success() {
                                    return Err(format!("exit status {st}"));
                                }
                                if bm != gos || ro != isr {
                                    return Err(format!("{bm} bestmove lines for {gos} go commands, {ro} readyok for {isr} isready"));
                                }
                                return Ok(());
                            }
                            Ok(None) => {
                                if std::time::Instant::now() > deadline {
                                    let _ = child.kill();
                                    let _ = child.wait();
                                    return Err("the process had not ended after 20 s".to_string());
                                }
                                std::thread::sleep(std::time::Duration::from_millis(5));
                            }
                            Err(e) => return Err(e.to_string()),
                        }
                    }
                })();
                if let Err(m) = r {
                    run.violation("blackbox-hang", format!("blackbox-oneshot|script {}", String::from_utf8_lossy(oneshot[i])), J::obj(vec![("kind", J::s("uci-blackbox-oneshot")), ("script", J::s(String::from_utf8_lossy(oneshot[i]).to_string())), ("argument", J::s(arg.clone()))]), format!("optimised binary run as `engine \"{}\"`: {m}", arg.replace('\n', "\\n")));
                }
            });
            let k1 = n1.load(std::sync::atomic::Ordering::Relaxed);
            run.family("E7-ONESHOT", "well-formed scripts of length <= 3 without stop / quit / unbounded search and with at least one search, passed to the optimised binary as one command-list argument: the process must end by itself within 20 s with one bestmove per go and one readyok per isready", k1, k1, true, "");
            *run.traces_validated.lock().unwrap() += k1;
            let k = n.load(std::sync::atomic::Ordering::Relaxed);
            run.family("E7-SCRIPTS", &format!("well-formed scripts of length <= {bb_len} (quick tier: all up to length 3, of length 4 those with a go, a stop and a ucinewgame/setoption) on the optimised binary with real threads; go infinite on the start position and, for scripts with an unbounded search, also on bare kings (the search exhausts its depth); scripts with a finite search also with Move Overhead 1000 and movetime / clock limits, with odd but valid phrasings of go (negative clock, double blanks), on positions with exactly one legal move under clock limits, and with limits of zero; 20 s per awaited answer"), k, k, true, "one schedule per script — a sample of schedules, not an enumeration");
            *run.traces_validated.lock().unwrap() += k;
        }
    }
    run.assume("shuttle explores sequentially consistent interleavings; the only atomic of the protocol is the stop flag (Relaxed), whose late visibility can only delay the observation of a stop");
    run.assume("an unbounded search (go infinite) is modelled as a blocking wait at its polling point (hook H1): between polls the search performs no synchronisation");
    run.assume("preemption-bounded: a schedule needing more preemptions than the stated bound is not explored; yields (spin-waits) are free");
    run.assume("if the abstract state set is closed (coverage.notes), blocking behaviour of longer histories is covered under the assumption that it depends only on control / latch / mutex / outstanding searches");
    report::finish(run, execs + *sizes.last().unwrap_or(&0) as u64, steps, "every well-formed command script up to the stated length x every schedule within the stated preemption bound, executed on the real Uci command loop and search closure: no deadlock, no livelock, every isready answered, every go answered by exactly one bestmove, quit ends the loop", true)
}

fn main() {
    let args: Vec<String> = std::env::args().collect();
    util::install_quiet_panic_hook();
    init();
    match args.get(1).map(|s| s.as_str()) {
        Some("C05") => {
            let tier = args.get(2).map(|s| s.as_str()).unwrap_or("quick");
            let seed: u64 = std::env::var("VERIF_SEED").ok().and_then(|s| s.parse().ok()).unwrap_or(0);
            let run: &'static Run = Box::leak(Box::new(Run::new("C05", tier, seed)));
            std::process::exit(c05(run));
        }
        Some("determinism") => {
            // C12 under schedules: scripts with at least two finite searches on the start position; under every schedule
            // the searches must print what they print under the schedule without preemptions
            let tier = args.get(2).map(|s| s.as_str()).unwrap_or("quick");
            let (maxlen, bound) = if tier == "quick" { (5, 2) } else { (6, 2) };
            let scripts: Vec<Vec<u8>> = all_scripts(maxlen)
                .into_iter()
                // every search runs to its depth limit: no stop, no quit, no unbounded search
                .filter(|s| s.iter().filter(|c| b"FD".contains(c)).count() >= 2 && !s.contains(&b'G') && !s.contains(&b'S') && !s.contains(&b'Q'))
                .map(|s| {
                    let mut t = vec![b'2'];
                    t.extend(s);
                    t
                })
                .collect();
            let totals = Mutex::new((0u64, 0u64));
            let fails: Mutex<Vec<J>> = Mutex::new(vec![]);
            util::par_for(scripts.len(), |i| {
                EXPECT_TRACE.with(|e| *e.borrow_mut() = None);
                let (_, f0, _) = replay_schedule(&scripts[i], &[]);
                if f0.is_some() {
                    return; // a script that fails without preemptions is C05's business
                }
                let reference = search_trace();
                EXPECT_TRACE.with(|e| *e.borrow_mut() = Some(reference));
                let abs = Arc::new(Mutex::new(BTreeSet::new()));
                let e = explore(&scripts[i], bound, &abs);
                let mut t = totals.lock().unwrap();
                t.0 += e.executions;
                t.1 += e.steps;
                drop(t);
                if let Some((msg, choices)) = e.failure {
                    let (_, f1, _) = replay_schedule(&scripts[i], &choices);
                    let (_, f2, _) = replay_schedule(&scripts[i], &choices);
                    let mut c = case_json(&scripts[i], bound, &choices);
                    if let J::Obj(o) = &mut c {
                        o.push(("expect_default_schedule".to_string(), J::Bool(true)));
                        o.push(("message".to_string(), J::s(msg.lines().next().unwrap_or("").chars().take(400).collect::<String>())));
                        o.push(("replays_deterministically".to_string(), J::Bool(f1.is_some() && f2.is_some())));
                    }
                    fails.lock().unwrap().push(c);
                }
                EXPECT_TRACE.with(|e| *e.borrow_mut() = None);
            });
            let (ex, st) = *totals.lock().unwrap();
            let out = J::obj(vec![("scripts", J::i(scripts.len() as i64)), ("max_length", J::i(maxlen as i64)), ("preemption_bound", J::i(bound as i64)), ("executions", J::i(ex)), ("steps", J::i(st)), ("failures", J::Arr(fails.into_inner().unwrap()))]);
            println!("NEWGAME-RESULT {}", out.dump().replace('\n', " "));
        }
        Some(mode @ ("newgame" | "setoption")) => {
            // C12 / C13 under schedules: every well-formed script in which a ucinewgame (a setoption Hash) follows a search
            let tier = args.get(2).map(|s| s.as_str()).unwrap_or("quick");
            let (maxlen, bound) = if tier == "quick" { (4, 2) } else { (5, 2) };
            let letter = if mode == "newgame" { b'N' } else { b'H' };
            let fresh_mode = mode == "newgame";
            let scripts: Vec<Vec<u8>> = all_scripts(maxlen).into_iter().filter(|s| s.iter().position(|c| b"FDG".contains(c)).map_or(false, |i| s[i..].contains(&letter))).collect();
            let totals = Mutex::new((0u64, 0u64));
            let fails: Mutex<Vec<J>> = Mutex::new(vec![]);
            util::par_for(scripts.len(), |i| {
                verif_hooks::CHECK_FRESH.with(|c| c.set(fresh_mode));
                verif_hooks::CHECK_RESIZED.with(|c| c.set(!fresh_mode));
                let abs = Arc::new(Mutex::new(BTreeSet::new()));
                let e = explore(&scripts[i], bound, &abs);
                let mut t = totals.lock().unwrap();
                t.0 += e.executions;
                t.1 += e.steps;
                drop(t);
                if let Some((msg, choices)) = e.failure {
                    let (_, f1, _) = replay_schedule(&scripts[i], &choices);
                    let (_, f2, _) = replay_schedule(&scripts[i], &choices);
                    let mut c = case_json(&scripts[i], bound, &choices);
                    if let J::Obj(o) = &mut c {
                        o.push((if fresh_mode { "check_fresh" } else { "check_resized" }.to_string(), J::Bool(true)));
                        o.push(("message".to_string(), J::s(msg.lines().next().unwrap_or("").chars().take(240).collect::<String>())));
                        o.push(("replays_deterministically".to_string(), J::Bool(f1.is_some() && f2.is_some())));
                    }
                    fails.lock().unwrap().push(c);
                }
            });
            let (ex, st) = *totals.lock().unwrap();
            let out = J::obj(vec![("scripts", J::i(scripts.len() as i64)), ("max_length", J::i(maxlen as i64)), ("preemption_bound", J::i(bound as i64)), ("executions", J::i(ex)), ("steps", J::i(st)), ("failures", J::Arr(fails.into_inner().unwrap()))]);
            println!("NEWGAME-RESULT {}", out.dump().replace('\n', " "));
        }
        Some("script") => {
            let s = args[2].as_bytes().to_vec();
            let b: usize = args.get(3).and_then(|x| x.parse().ok()).unwrap_or(2);
            let abs = Arc::new(Mutex::new(BTreeSet::new()));
            let e = explore(&s, b, &abs);
            println!("script {} [{}] bound {b}: executions {} steps {} failure {:?}", args[2], script_text(&s), e.executions, e.steps, e.failure.as_ref().map(|f| f.0.lines().next().unwrap_or("").to_string()));
            for a in abs.lock().unwrap().iter() {
                println!("  Q {a}");
            }
            if let Some((_, ch)) = &e.failure {
                println!("choices {ch:?}");
                let (l1, f1, n1) = replay_schedule(&s, ch);
                let (l2, f2, n2) = replay_schedule(&s, ch);
                println!("replay1 log {l1:?} fail {:?} nd {n1:?}", f1.map(|m| m.lines().next().unwrap_or("").to_string()));
                println!("replay2 log {l2:?} fail {:?} nd {n2:?}", f2.map(|m| m.lines().next().unwrap_or("").to_string()));
            }
        }
        Some("replay") => {
            let text = std::fs::read_to_string(&args[2]).expect("replay file");
            let j = J::parse(&text).expect("json");
            let case = j.get("case").cloned().unwrap_or(J::Null);
            let script = case.get("script").and_then(|x| x.as_str()).unwrap_or("").as_bytes().to_vec();
            if case.get("kind").and_then(|x| x.as_str()) == Some("uci-blackbox-oneshot") {
                let bin = blackbox::binary().expect("VERIF_ENGINE_BIN");
                let arg = case.get("argument").and_then(|x| x.as_str()).unwrap_or("").to_string();
                let mut child = std::process::Command::new(&bin).arg(&arg).stdin(std::process::Stdio::null()).stdout(std::process::Stdio::piped()).stderr(std::process::Stdio::null()).spawn().expect("spawn");
                let deadline = std::time::Instant::now() + std::time::Duration::from_secs(20);
                loop {
                    match child.try_wait() {
                        Ok(Some(st)) => {
                            println!("replay: the process ended with {st}");
                            std::process::exit(if st.success() { 0 } else { 1 });
                        }
                        _ => {
                            if std::time::Instant::now() > deadline {
                                let _ = child.kill();
                                println!("replay: VIOLATION the process had not ended after 20 s");
                                std::process::exit(1);
                            }
                            std::thread::sleep(std::time::Duration::from_millis(10));
                        }
                    }
                }
            }
            if case.get("kind").and_then(|x| x.as_str()) == Some("uci-blackbox-script") {
                let tiny = matches!(case.get("tiny_tree"), Some(J::Bool(true)));
                let overhead = case.get("mode").and_then(|x| x.as_i64()).unwrap_or(0) as u8;
                let bin = blackbox::binary().expect("VERIF_ENGINE_BIN");
                match blackbox_script(&bin, &script, tiny, overhead) {
                    Ok(()) => {
                        println!("replay: no violation observed");
                        std::process::exit(0);
                    }
                    Err(m) => {
                        println!("replay: VIOLATION {m}");
                        std::process::exit(1);
                    }
                }
            }
            if matches!(case.get("expect_default_schedule"), Some(J::Bool(true))) {
                let _ = replay_schedule(&script, &[]);
                let reference = search_trace();
                println!("schedule without preemptions prints {} search lines", reference.len());
                EXPECT_TRACE.with(|e| *e.borrow_mut() = Some(reference));
            }
            if matches!(case.get("check_fresh"), Some(J::Bool(true))) {
                verif_hooks::CHECK_FRESH.with(|c| c.set(true));
            }
            if matches!(case.get("check_resized"), Some(J::Bool(true))) {
                verif_hooks::CHECK_RESIZED.with(|c| c.set(true));
            }
            let choices: Vec<usize> = case.get("schedule").and_then(|x| x.as_arr()).map(|a| a.iter().filter_map(|x| x.as_i64().map(|v| v as usize)).collect()).unwrap_or_default();
            println!("replaying script {} [{}] with a schedule of {} choices", String::from_utf8_lossy(&script), script_text(&script), choices.len());
            let (log, f, nd) = replay_schedule(&script, &choices);
            println!("responses: {log:?}");
            if let Some(nd) = nd {
                println!("replay diverged: {nd}");
                std::process::exit(2);
            }
            match f {
                Some(m) => {
                    println!("replay: VIOLATION {}", m.lines().next().unwrap_or(""));
                    std::process::exit(1);
                }
                None => {
                    println!("replay: no violation observed");
                    std::process::exit(0);
                }
            }
        }
        _ => {
            eprintln!("usage: tvc-sched C05 <quick|thorough> | tvc-sched replay <file> | tvc-sched script <letters> <bound>");
            std::process::exit(2);
        }
    }
}
