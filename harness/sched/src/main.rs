fn main() {}
