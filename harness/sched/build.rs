// Builds the fathom tablebase prober that /repo's bindings link against and switches the
// verification hooks of /repo's sources on for this crate only.
fn main() {
    println!("cargo:rerun-if-changed=/repo/src/engine/tablebases/fathom/src");
    println!("cargo:rerun-if-changed=build.rs");
    println!("cargo::rustc-check-cfg=cfg(jgilchrist_tcheran_verif)");
    println!("cargo:rustc-cfg=jgilchrist_tcheran_verif");
    cc::Build::new()
        .include("/repo/src/engine/tablebases/fathom/src")
        .file("/repo/src/engine/tablebases/fathom/src/tbprobe.c")
        .warnings(false)
        .compile("fathom");
}
