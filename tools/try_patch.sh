#!/bin/bash
# tools/try_patch.sh <patch.diff> <tier> <PROP> [PROP...] — apply a seeded change to /repo, run the checks, undo it.
# Prints one line per property: PROP exit=<code> first violation kinds.
patch="$1"; tier="$2"; shift 2
ROOT=$(cd "$(dirname "$0")/.." && pwd)
REPO="${VERIF_REPO:-/repo}"
cd "$REPO" || exit 2
if ! git diff --quiet; then echo "$REPO working tree is dirty" >&2; exit 2; fi
if ! git apply --3way "$patch" 2>/dev/null && ! git apply "$patch"; then echo "patch does not apply" >&2; git checkout -- . ; exit 2; fi
git reset -q 2>/dev/null
for p in "$@"; do
  out=$(cd "$ROOT" && ./check "$p" "$tier" 2>"$ROOT/build/try_patch.err"); code=$?
  kinds=$(grep -o "violation \[[a-z0-9:-]*\]" "$ROOT/build/try_patch.err" | sort | uniq -c | sort -rn | head -4 | tr '\n' ';')
  echo "$p exit=$code $(echo "$out" | grep -c '^VIOLATION') VIOLATION lines; $kinds $(grep -m1 'MACHINERY' "$ROOT/build/try_patch.err")"
done
git -C "$REPO" checkout -- . ; git -C "$REPO" status --short | head -3
rm -f "$ROOT/build/try_patch.err"
