#!/bin/bash
# tools/run_seeds.sh [tier] — apply every seeded change under /verif/seeded to /repo in turn, run the quick check of
# its property (plus extra checks listed in seeded/<id>/also), undo it, and write /verif/seeded/RESULTS.md.
tier="${1:-quick}"
ROOT=$(cd "$(dirname "$0")/.." && pwd)
REPO="${VERIF_REPO:-/repo}"
# SEED_RE: only seeds whose id matches this extended regular expression; SEED_TAG: suffix of the result file
out="$ROOT/seeded/RESULTS${SEED_TAG:-}.md"
{
echo "# Seeded changes vs checks ($tier tier, repository at $(git -C "$REPO" rev-parse --short HEAD), $(date -u +%FT%TZ))"
echo
echo "| seed | property | check exit | violation kinds (count stored) |"
echo "|------|----------|-----------|-------------------------------|"
} > $out
for d in "$ROOT"/seeded/C*-[mr]*/; do
  id=$(basename $d); prop=${id%%-*}
  echo "$id" | grep -qE "${SEED_RE:-.}" || continue
  props="$prop $(cat $d/also 2>/dev/null)"
  for p in $props; do
    line=$("$ROOT/tools/try_patch.sh" $d/patch.diff $tier $p 2>&1 | grep "^$p exit" | head -1)
    code=$(echo "$line" | sed 's/.*exit=\([0-9]*\).*/\1/')
    kinds=$(echo "$line" | sed 's/.*VIOLATION lines; *//' | sed 's/  */ /g')
    echo "| $id | $p | $code | $kinds |" >> $out
  done
done
echo >> $out
echo "exit 1 = the check reports the change (VIOLATION lines); exit 0 = not reported; exit 2 = machinery failure." >> $out
