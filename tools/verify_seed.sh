#!/bin/bash
# tools/verify_seed.sh <dir with patch.diff, demo/> — confirm a seeded change in a scratch worktree of /repo's HEAD:
# (1) the patch applies, compiles and the repository's own suite still passes (181), (2) the demonstration fails with
# the patch, (3) passes without it. Prints one RESULT line. The scratch worktree /tmp/vs is reused between calls and
# removed by `tools/verify_seed.sh --cleanup`.
set -u
WT=/tmp/vs
if [ "${1:-}" = "--cleanup" ]; then git -C /repo worktree remove --force $WT 2>/dev/null; rm -rf $WT; exit 0; fi
d=$(readlink -f "$1")
export CARGO_NET_OFFLINE=true
if [ ! -d $WT ]; then git -C /repo worktree add --detach $WT HEAD -q || exit 2; fi
cd $WT && git reset -q --hard $(git -C /repo rev-parse HEAD) && git clean -fdq -e target
if ! git apply --3way "$d/patch.diff" >/dev/null 2>&1; then echo "RESULT $1 patch-does-not-apply"; exit 1; fi
git reset -q
suite=$(cargo test --workspace --no-fail-fast --offline 2>&1 | grep "test result" | head -1)
run_demo() { # prints "pass" or "fail"
  local ok=pass
  cp src/tests/mod.rs /tmp/vs_mod.rs.bak
  for f in "$d"/demo/*.rs; do [ -e "$f" ] || continue; cp "$f" src/tests/; echo "mod $(basename "$f" .rs);" >> src/tests/mod.rs; done
  if ls "$d"/demo/*.rs >/dev/null 2>&1; then
    out=$(cargo test --offline seeded 2>&1 | grep "test result" | head -1)
    echo "$out" | grep -q " 0 failed" || ok=fail
    echo "$out" | grep -q "test result" || ok=fail
    for f in "$d"/demo/*.rs; do rm -f src/tests/$(basename "$f"); done
    cp /tmp/vs_mod.rs.bak src/tests/mod.rs
  else
    cargo build --offline >/dev/null 2>&1 || ok=fail
    for f in "$d"/demo/*.py; do [ -e "$f" ] || continue; timeout 300 python3 "$f" target/debug/engine >/dev/null 2>&1 || ok=fail; done
    for f in "$d"/demo/*.sh; do [ -e "$f" ] || continue; timeout 300 sh "$f" target/debug/engine >/dev/null 2>&1 || ok=fail; done
  fi
  echo $ok
}
with=$(run_demo)
git checkout -- . && git clean -fdq -e target
without=$(run_demo)
git checkout -- . && git clean -fdq -e target
echo "RESULT $1 suite=[$suite] demo_with_patch=$with demo_without_patch=$without"
