#!/usr/bin/env python3
"""Fill detected_by / needs_to_manifest in /verif/seeded/*/meta.json from seeded/RESULTS.md and notes.md."""
import json, os, re, glob
res={}
for l in open('/verif/seeded/RESULTS.md'):
    m=re.match(r'\| (C\d\d-[mr]\w+) \| (C\d\d) \| (\d*) \| (.*) \|',l)
    if m: res.setdefault(m.group(1),[]).append((m.group(2),m.group(3),m.group(4).strip()))
for d in sorted(glob.glob('/verif/seeded/C*-[mr]*/')):
    sid=os.path.basename(d.rstrip('/'))
    mp=d+'meta.json'; meta=json.load(open(mp))
    notes=open(d+'notes.md').read() if os.path.exists(d+'notes.md') else ''
    trig=[x.strip(' -*') for x in notes.splitlines() if re.search(r'[Tt]rigger|manifest|needs', x)]
    if trig: meta['needs_to_manifest']=' / '.join(trig)[:900]
    if sid in res:
        meta['detected_by']=[{'check':p,'tier':'quick','exit':int(c) if c else None,'violation_kinds':k} for p,c,k in res[sid]]
        meta['what_was_run']='tools/verify_seed.sh (suite + demonstration with / without the change in a scratch worktree); tools/run_seeds.sh (git -C /repo apply, ./check <property> quick, git -C /repo checkout -- .)'
    json.dump(meta,open(mp,'w'),indent=1)
print('annotated',len(res))
