#!/usr/bin/env python3
"""Copy the confirmed seeded changes from the sub-agents' scratch worktrees into /verif/seeded/<id>/,
re-expressing each patch against /repo's current HEAD (3-way apply in the scratch worktree /tmp/vs)."""
import json, os, shutil, subprocess, sys, re
VS='/tmp/vs'
def sh(c, **k): return subprocess.run(c, shell=True, capture_output=True, text=True, **k)
head=sh('git -C /repo rev-parse --short HEAD').stdout.strip()
if not os.path.isdir(VS): sh(f'git -C /repo worktree add --detach {VS} HEAD -q')
log=open('/tmp/seed/verify.log').read() if os.path.exists('/tmp/seed/verify.log') else ''
for prop in ['C%02d'%i for i in range(1,21)]:
    for rnd,m in [('_out','m1'),('_out','m2'),('_out','m1r'),('_out','m2r'),('_out2','m1'),('_out2','m2'),('_out3','m1'),('_out3','m2'),('_out4','m1'),('_out4','m2'),('_out5','m1'),('_out5','m2'),('_out6','m1'),('_out6','m2'),('_out7','m1'),('_out7','m2'),('_out8','m1'),('_out8','m2')]:
        src=f'/tmp/seed/{prop}/{rnd}/{m}'
        if not os.path.isdir(src): continue
        if rnd=='_out' and m in ('m1','m2') and os.path.isdir(f'/tmp/seed/{prop}/_out/{m}r'): continue
        sid=f'{prop}-{m[:2]}' if rnd=='_out' else (f"{prop}-m{int(m[1])+2}" if rnd=='_out2' else (f"{prop}-m{int(m[1])+4}" if rnd=='_out3' else (f"{prop}-m{int(m[1])+6}" if rnd=='_out4' else (f"{prop}-m{int(m[1])+8}" if rnd=='_out5' else (f"{prop}-m{int(m[1])+10}" if rnd=='_out6' else (f"{prop}-m{int(m[1])+12}" if rnd=='_out7' else f"{prop}-m{int(m[1])+14}"))))))
        dst=f'/verif/seeded/{sid}'
        sh(f'cd {VS} && git reset -q --hard {head} && git clean -fdq -e target')
        r=sh(f'cd {VS} && git apply --3way {src}/patch.diff && git reset -q && git diff')
        if r.returncode!=0 or not r.stdout.strip():
            print(sid,'patch does not apply:',r.stderr[:200]); continue
        os.makedirs(dst,exist_ok=True)
        open(f'{dst}/patch.diff','w').write(r.stdout)
        if os.path.isdir(f'{dst}/demo'): shutil.rmtree(f'{dst}/demo')
        shutil.copytree(f'{src}/demo',f'{dst}/demo')
        notes=open(f'{src}/notes.md').read() if os.path.exists(f'{src}/notes.md') else ''
        open(f'{dst}/notes.md','w').write(notes)
        meta={'id':sid,'property':prop,'base_commit':head,
              'origin':'independent sub-agent given only the property text and a scratch worktree'+(' (second round: told which first-round ideas to avoid)' if rnd=='_out2' else (' (third round: told which earlier ideas to avoid, asked for unusual phrasings / rare states / profile-specific / multi-file changes)' if rnd=='_out3' else (' (fourth round: as the third, plus optimisations wrong in rare states, long-lived process state, shared helpers, integer boundaries, profile differences)' if rnd=='_out4' else (' (fifth round: low-level helpers outside the anchored files, container and index boundaries, initialisation, feature combinations, unusual but valid protocol text, refactors that change an invariant)' if rnd=='_out5' else (' (sixth round: signed arithmetic, Ord / Eq / Hash implementations, edge masks for one colour, constants read only at extremes, error paths, cooperating edits, unsafe preconditions)' if rnd=='_out6' else (' (seventh round: told all earlier ideas, asked for a different kind of mistake)' if rnd=='_out7' else (' (eighth round: one change per property, told the titles of all earlier changes, asked for a different mechanism and source location)' if rnd=='_out8' else ''))))))),
              'files_touched':sorted(set(re.findall(r'^\+\+\+ b/(\S+)',r.stdout,re.M))),
              'needs_to_manifest':'see notes.md (trigger section)',
              'confirmed_by':'tools/verify_seed.sh: repository suite with the change 181 passed / 0 failed; demonstration fails with the change and passes without it (scratch worktree /tmp/vs)'}
        old=f'{dst}/meta.json'
        if os.path.exists(old):
            try:
                o=json.load(open(old)); 
                for k in ('detected_by','status','comment'): 
                    if k in o: meta[k]=o[k]
            except Exception: pass
        json.dump(meta,open(old,'w'),indent=1)
        print(sid,'ok',meta['files_touched'])
sh(f'cd {VS} && git reset -q --hard')
