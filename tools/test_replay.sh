#!/bin/bash
# tools/test_replay.sh <seed-id> [PROP] — with the seeded change applied the check must report a violation whose stored
# replay reproduces it (exit 1); on the unchanged tree the same replay file must pass (exit 0).
id="$1"; prop="${2:-${id%%-*}}"
cd /repo || exit 2
git diff --quiet || { echo "/repo dirty"; exit 2; }
git apply /verif/seeded/$id/patch.diff || { echo "patch does not apply"; exit 2; }
cd /verif
./check $prop quick > /tmp/tr_out.txt 2>/dev/null; c=$?
f=$(grep -m1 '^VIOLATION' /tmp/tr_out.txt | sed 's/.*replay=//')
mkdir -p /tmp/tr_keep && cp "$f" /tmp/tr_keep/case.json 2>/dev/null
./check replay /tmp/tr_keep/case.json > /tmp/tr_r1.txt 2>&1; r1=$?
git -C /repo checkout -- .
./check replay /tmp/tr_keep/case.json > /tmp/tr_r2.txt 2>&1; r2=$?
kind=$(python3 -c "import json;j=json.load(open('/tmp/tr_keep/case.json'));print(j['case'].get('kind'),'/',j['kind'])" 2>/dev/null)
echo "$id $prop check=$c case=[$kind] replay_with_change=$r1 replay_on_clean_tree=$r2 $( [ $r1 = 1 ] && [ $r2 = 0 ] && echo OK || echo MISMATCH)"
