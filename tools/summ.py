#!/usr/bin/env python3
import json,sys,glob
p=sys.argv[1]
e=json.load(open(f'/verif/evidence/{p}.json')); c=e['coverage']
print(p,e['tier'],'wall',e['wall_s'],'violations',e['violations'],'states',c['states'],'transitions',c['transitions'],'distinct',c['distinct_nontrivial'],'exh',c['exhaustive'])
print(' kinds:',c['violation_kinds'])
for f in c['families']: print('  fam',f['name'],f['states'],f['transitions'],f['bound'][:90])
if len(sys.argv)>2: print(' counters:',c['counters'])
print(' merr:',c['machinery_errors'],' known:',c['known_findings_hit'])
seen={}
for f in sorted(glob.glob(f'/verif/replays/{p}/*.json')):
    j=json.load(open(f))
    if seen.get(j['kind'],0)<2:
        seen[j['kind']]=seen.get(j['kind'],0)+1; print('  ex',j['kind'],'|',j['key'][:110],'::',j['detail'][:160])
